package astisub

// Witness search for C19 (run only after a C19 obligation failed): repeated writes of one
// heterogeneous cue list must give identical bytes, and no writer may change the list (deep
// snapshot before / after). Prints "WITNESS:" lines. A bounded search for a concrete failing
// input, not the decision procedure.

import (
	"bytes"
	"fmt"
	"io"
	"reflect"
	"testing"
	"time"
)

func vpDeepCopy(v reflect.Value, seen map[uintptr]reflect.Value) reflect.Value {
	switch v.Kind() {
	case reflect.Ptr:
		if v.IsNil() {
			return reflect.Zero(v.Type())
		}
		if c, ok := seen[v.Pointer()]; ok {
			return c
		}
		n := reflect.New(v.Type().Elem())
		seen[v.Pointer()] = n
		n.Elem().Set(vpDeepCopy(v.Elem(), seen))
		return n
	case reflect.Slice:
		if v.IsNil() {
			return reflect.Zero(v.Type())
		}
		n := reflect.MakeSlice(v.Type(), v.Len(), v.Len())
		for i := 0; i < v.Len(); i++ {
			n.Index(i).Set(vpDeepCopy(v.Index(i), seen))
		}
		return n
	case reflect.Map:
		if v.IsNil() {
			return reflect.Zero(v.Type())
		}
		n := reflect.MakeMap(v.Type())
		for _, k := range v.MapKeys() {
			n.SetMapIndex(k, vpDeepCopy(v.MapIndex(k), seen))
		}
		return n
	case reflect.Struct:
		n := reflect.New(v.Type()).Elem()
		for i := 0; i < v.NumField(); i++ {
			if n.Field(i).CanSet() {
				n.Field(i).Set(vpDeepCopy(v.Field(i), seen))
			}
		}
		return n
	}
	return v
}

func vpC19List() *Subtitles {
	s := NewSubtitles()
	b, f := true, 12.5
	n := 2
	s.Metadata = &Metadata{Title: "t", Language: LanguageFrench, Framerate: 25}
	for i, id := range []string{"s1", "s2", "s3", "s4", "s5", "s6"} {
		sa := &StyleAttributes{WebVTTStyles: []string{"::cue(." + id + ") { color: red }"}}
		switch i {
		case 0:
			sa.SSABold = &b
		case 1:
			sa.SSAFontName = "Arial"
		case 2:
			sa.SSAFontSize = &f
			sa.SSAItalic = &b
		case 3:
			sa.SSAAlignment = &n
			sa.TTMLColor = &id
		case 4:
			sa.SSASpacing = &f
		}
		s.Styles[id] = &Style{ID: id, InlineStyle: sa}
	}
	s.Styles["s6"].InlineStyle = nil
	s.Styles["s2"].Style = s.Styles["s1"]
	for i, id := range []string{"r1", "r2", "r3", "r4"} {
		r := &Region{ID: id}
		if i%2 == 0 {
			r.InlineStyle = &StyleAttributes{WebVTTLines: i + 1, WebVTTRegionAnchor: "0%,100%", TTMLExtent: &id}
		}
		if i == 1 {
			r.Style = s.Styles["s3"]
		}
		s.Regions[id] = r
	}
	mk := func(st, en time.Duration, text string) *Item {
		return &Item{StartAt: st, EndAt: en, Lines: []Line{{Items: []LineItem{{Text: text}}}}}
	}
	i1 := mk(time.Second, 2*time.Second, "first")
	i2 := mk(3*time.Second, 4*time.Second, "second")
	i2.Region = s.Regions["r1"]
	i3 := mk(5*time.Second, 6*time.Second, "third")
	i3.Style = s.Styles["s6"]
	i3.InlineStyle = &StyleAttributes{WebVTTAlign: "middle"}
	i4 := mk(7*time.Second, 8*time.Second, "fourth")
	i4.Style = s.Styles["s2"]
	i4.Region = s.Regions["r2"]
	i4.Lines[0].Items[0].InlineStyle = &StyleAttributes{SRTBold: true}
	i4.Lines[0].Items[0].Style = s.Styles["s4"]
	s.Items = []*Item{i1, i2, i3, i4}
	return s
}

func TestVPReplayC19(t *testing.T) {
	writers := []struct {
		name string
		f    func(Subtitles, io.Writer) error
	}{
		{"WriteToSRT", func(s Subtitles, w io.Writer) error { return s.WriteToSRT(w) }},
		{"WriteToWebVTT", func(s Subtitles, w io.Writer) error { return s.WriteToWebVTT(w) }},
		{"WriteToSSA", func(s Subtitles, w io.Writer) error { return s.WriteToSSA(w) }},
		{"WriteToSTL", func(s Subtitles, w io.Writer) error { return s.WriteToSTL(w) }},
		{"WriteToTTML", func(s Subtitles, w io.Writer) error { return s.WriteToTTML(w) }},
	}
	fixed := time.Date(2020, 1, 2, 3, 4, 5, 0, time.UTC)
	oldNow := Now
	Now = func() time.Time { return fixed }
	defer func() { Now = oldNow }()
	found := 0
	for _, wr := range writers {
		func() {
			defer func() {
				if r := recover(); r != nil {
					fmt.Printf("WITNESS: %s panicked on the heterogeneous list of vpC19List: %v\n", wr.name, r)
					found++
				}
			}()
			s := vpC19List()
			snap := vpDeepCopy(reflect.ValueOf(s), map[uintptr]reflect.Value{}).Interface().(*Subtitles)
			var first []byte
			for i := 0; i < 40; i++ {
				var buf bytes.Buffer
				if err := wr.f(*s, &buf); err != nil {
					return
				}
				if i == 0 {
					first = buf.Bytes()
					if !reflect.DeepEqual(s, snap) {
						fmt.Printf("WITNESS: %s modified the cue list it was given (deep snapshot of vpC19List differs after one write)\n", wr.name)
						found++
					}
				} else if !bytes.Equal(first, buf.Bytes()) {
					fmt.Printf("WITNESS: %s wrote different bytes on write #%d of the same list (styles s1..s6 with different attribute sets, regions r1..r4)\n", wr.name, i+1)
					found++
					break
				}
			}
		}()
	}
	if found > 0 {
		t.Fatalf("%d failing inputs", found)
	}
}
