package astisub

// Witness search for C08 (run only after a C08 obligation failed): structure-aware mutations of
// the repository's example documents fed to every reader, and cue lists with every combination of
// optional parts absent fed to every writer; a panic is reported as a "WITNESS:" line. A bounded
// search for a concrete failing input, not the decision procedure.

import (
	"bytes"
	"fmt"
	"io"
	"os"
	"strings"
	"testing"
	"time"
)

func vpTry(name, what string, f func()) (bad bool) {
	defer func() {
		if r := recover(); r != nil {
			fmt.Printf("WITNESS: %s panicked (%v) on %s\n", name, r, what)
			bad = true
		}
	}()
	done := make(chan struct{})
	go func() {
		defer func() {
			if r := recover(); r != nil {
				fmt.Printf("WITNESS: %s panicked (%v) on %s\n", name, r, what)
				bad = true
			}
			close(done)
		}()
		f()
	}()
	select {
	case <-done:
	case <-time.After(20 * time.Second):
		fmt.Printf("WITNESS: %s did not return within 20s on %s\n", name, what)
		bad = true
	}
	return
}

func TestVPReplayC08(t *testing.T) {
	found := 0
	readers := []struct {
		name string
		docs []string
		f    func(io.Reader)
	}{
		{"ReadFromSRT", []string{"testdata/example-in.srt", "testdata/example-in-styled.srt"}, func(r io.Reader) { ReadFromSRT(r) }},
		{"ReadFromWebVTT", []string{"testdata/example-in.vtt", "testdata/example-out-styled.vtt"}, func(r io.Reader) { ReadFromWebVTT(r) }},
		{"ReadFromSSA", []string{"testdata/example-in.ssa", "testdata/example-out-v4plus.ssa"}, func(r io.Reader) { ReadFromSSA(r) }},
		{"ReadFromSTL", []string{"testdata/example-in.stl", "testdata/example-opn-in.stl"}, func(r io.Reader) { ReadFromSTL(r, STLOptions{}) }},
		{"ReadFromTTML", []string{"testdata/example-in.ttml", "testdata/example-in-breaklines.ttml"}, func(r io.Reader) { ReadFromTTML(r) }},
	}
	for _, rd := range readers {
		perReader := 0
		for _, file := range rd.docs {
			doc, err := os.ReadFile(file)
			if err != nil {
				continue
			}
			var muts []struct {
				what string
				b    []byte
			}
			add := func(what string, b []byte) {
				muts = append(muts, struct {
					what string
					b    []byte
				}{what, b})
			}
			// truncations
			step := 1
			if len(doc) > 3000 {
				step = 11
			}
			for k := 0; k <= len(doc); k += step {
				add(fmt.Sprintf("%s truncated to %d bytes", file, k), doc[:k])
			}
			if rd.name != "ReadFromSTL" {
				lines := strings.Split(string(doc), "\n")
				// one line dropped; one line cut after each separator-like token
				for i := range lines {
					var keep []string
					keep = append(keep, lines[:i]...)
					keep = append(keep, lines[i+1:]...)
					add(fmt.Sprintf("%s without its line %d (%q)", file, i+1, lines[i]), []byte(strings.Join(keep, "\n")))
					for _, tok := range []string{"-->", ":", ",", "=", "\"", " "} {
						if j := strings.Index(lines[i], tok); j >= 0 {
							cut := append(append([]string{}, lines[:i]...), lines[i][:j+len(tok)])
							cut = append(cut, lines[i+1:]...)
							add(fmt.Sprintf("%s with line %d cut after %q", file, i+1, tok), []byte(strings.Join(cut, "\n")))
						}
					}
				}
				// attributes removed (TTML)
				for _, attr := range []string{" begin=", " end=", " style=", " region=", " xml:id="} {
					if j := strings.Index(string(doc), attr); j >= 0 {
						e := strings.Index(string(doc)[j+len(attr)+1:], "\"")
						if e >= 0 {
							add(fmt.Sprintf("%s without its first%sattribute", file, attr), []byte(string(doc)[:j]+string(doc)[j+len(attr)+1+e+1:]))
						}
					}
				}
			} else {
				// STL: every byte of the GSI block and of the first TTI block set to 0x00 / 0xff / '9'
				lim := 1024 + 128
				if lim > len(doc) {
					lim = len(doc)
				}
				for k := 0; k < lim; k++ {
					for _, v := range []byte{0x00, 0xff, '9'} {
						m := append([]byte{}, doc...)
						m[k] = v
						add(fmt.Sprintf("%s with byte %d set to 0x%02x", file, k, v), m)
					}
				}
			}
			for _, m := range muts {
				m := m
				if vpTry(rd.name, m.what, func() { rd.f(bytes.NewReader(m.b)) }) {
					found++
					perReader++
					if perReader >= 3 {
						break
					}
				}
			}
			if perReader >= 3 {
				break
			}
		}
	}
	// writers: optional parts absent in every combination on a small list
	writers := []struct {
		name string
		f    func(Subtitles, io.Writer) error
	}{
		{"WriteToSRT", func(s Subtitles, w io.Writer) error { return s.WriteToSRT(w) }},
		{"WriteToWebVTT", func(s Subtitles, w io.Writer) error { return s.WriteToWebVTT(w) }},
		{"WriteToSSA", func(s Subtitles, w io.Writer) error { return s.WriteToSSA(w) }},
		{"WriteToSTL", func(s Subtitles, w io.Writer) error { return s.WriteToSTL(w) }},
		{"WriteToTTML", func(s Subtitles, w io.Writer) error { return s.WriteToTTML(w) }},
	}
	saChoices := func() []*StyleAttributes {
		b := true
		n := 2
		f := 1.5
		str := "x"
		return []*StyleAttributes{nil, {}, {WebVTTAlign: "middle", WebVTTLine: "1", WebVTTSize: "50%", WebVTTVertical: "rl", WebVTTPosition: "10%", SRTBold: true, SSABold: &b, SSAAlignment: &n, SSAFontSize: &f, TTMLColor: &str, WebVTTLines: 3, WebVTTRegionAnchor: "0%,0%"}}
	}
	texts := []string{"", "plain", "́leading combining mark", "tab\tand\x01control", "non-BMP \U0001F600"}
	perWriter := map[string]int{}
	for mask := 0; mask < 1<<3; mask++ {
		for _, itemSA := range saChoices() {
			for _, styleSA := range saChoices() {
				for _, regionSA := range saChoices() {
					for ti, text := range texts {
						s := Subtitles{}
						if mask&1 != 0 {
							s.Metadata = &Metadata{}
						}
						if mask&2 != 0 {
							s.Styles = map[string]*Style{}
							s.Regions = map[string]*Region{}
						}
						st := &Style{ID: "s", InlineStyle: styleSA}
						rg := &Region{ID: "r", InlineStyle: regionSA, Style: st}
						if s.Styles != nil {
							s.Styles["s"] = st
							s.Regions["r"] = rg
						}
						it := &Item{StartAt: time.Second, EndAt: 2 * time.Second, InlineStyle: itemSA}
						if mask&4 != 0 {
							it.Style = st
							it.Region = rg
						}
						it.Lines = []Line{{Items: []LineItem{{Text: text, InlineStyle: itemSA, Style: it.Style}}}, {}}
						if ti == 0 {
							it.Lines = nil
						}
						s.Items = []*Item{it, {StartAt: 3 * time.Second, EndAt: 4 * time.Second}}
						for _, wr := range writers {
							if perWriter[wr.name] >= 3 {
								continue
							}
							wr := wr
							what := fmt.Sprintf("a list with metadata=%v maps=%v item style/region=%v, item attrs=%v style attrs=%v region attrs=%v, text %q", mask&1 != 0, mask&2 != 0, mask&4 != 0, itemSA != nil, styleSA != nil, regionSA != nil, text)
							if vpTry(wr.name, what, func() { wr.f(s, io.Discard) }) {
								found++
								perWriter[wr.name]++
							}
						}
					}
				}
			}
		}
	}
	if found > 0 {
		t.Fatalf("%d failing inputs", found)
	}
}
