package astisub

// Witness search for C18 (run only after a C18 obligation failed, through `go test -overlay`):
// fault injection at every offset of the repository's example documents, for every reader and
// writer. A failing input is printed as a line starting with "WITNESS:". This is a bounded search
// for a concrete failing input, not the decision procedure (that is the failed obligation).

import (
	"bytes"
	"errors"
	"fmt"
	"io"
	"os"
	"strings"
	"testing"
)

type vpFailingReader struct {
	data []byte
	pos  int
}

var errVPInjected = errors.New("injected fault")

func (r *vpFailingReader) Read(p []byte) (int, error) {
	if r.pos >= len(r.data) {
		return 0, errVPInjected
	}
	n := copy(p, r.data[r.pos:])
	r.pos += n
	return n, nil
}

type vpFailingWriter struct{ left int }

func (w *vpFailingWriter) Write(p []byte) (int, error) {
	if len(p) > w.left {
		n := w.left
		w.left = 0
		return n, errVPInjected
	}
	w.left -= len(p)
	return len(p), nil
}

func TestVPReplayC18(t *testing.T) {
	readers := []struct {
		name, file string
		f          func(io.Reader) (*Subtitles, error)
	}{
		{"ReadFromSRT", "testdata/example-in.srt", func(r io.Reader) (*Subtitles, error) { return ReadFromSRT(r) }},
		{"ReadFromWebVTT", "testdata/example-in.vtt", func(r io.Reader) (*Subtitles, error) { return ReadFromWebVTT(r) }},
		{"ReadFromSSA", "testdata/example-in.ssa", func(r io.Reader) (*Subtitles, error) { return ReadFromSSA(r) }},
		{"ReadFromSTL", "testdata/example-in.stl", func(r io.Reader) (*Subtitles, error) { return ReadFromSTL(r, STLOptions{}) }},
		{"ReadFromTTML", "testdata/example-in.ttml", func(r io.Reader) (*Subtitles, error) { return ReadFromTTML(r) }},
	}
	found := 0
	for _, rd := range readers {
		doc, err := os.ReadFile(rd.file)
		if err != nil {
			continue
		}
		full, err := rd.f(bytes.NewReader(doc))
		if err != nil || full == nil {
			continue
		}
		step := 1
		if len(doc) > 4000 {
			step = 7
		}
		reported := 0
		for k := 0; k < len(doc); k += step {
			s, err := rd.f(&vpFailingReader{data: doc[:k]})
			if err == nil && reported < 3 {
				n := -1
				if s != nil {
					n = len(s.Items)
				}
				fmt.Printf("WITNESS: %s on %s through a reader that fails after %d of %d bytes returned a nil error and %d cues (the whole document has %d)\n", rd.name, rd.file, k, len(doc), n, len(full.Items))
				reported++
				found++
			}
		}
		// a line longer than a scanner can buffer
		if rd.name == "ReadFromSRT" || rd.name == "ReadFromWebVTT" || rd.name == "ReadFromSSA" {
			long := append(append([]byte{}, doc...), []byte("\n"+strings.Repeat("x", 1<<20)+"\n")...)
			if _, err := rd.f(bytes.NewReader(long)); err == nil {
				fmt.Printf("WITNESS: %s on %s followed by a 1 MiB line returned a nil error\n", rd.name, rd.file)
				found++
			}
		}
	}
	writers := []struct {
		name string
		f    func(Subtitles, io.Writer) error
	}{
		{"WriteToSRT", func(s Subtitles, w io.Writer) error { return s.WriteToSRT(w) }},
		{"WriteToWebVTT", func(s Subtitles, w io.Writer) error { return s.WriteToWebVTT(w) }},
		{"WriteToSSA", func(s Subtitles, w io.Writer) error { return s.WriteToSSA(w) }},
		{"WriteToSTL", func(s Subtitles, w io.Writer) error { return s.WriteToSTL(w) }},
		{"WriteToTTML", func(s Subtitles, w io.Writer) error { return s.WriteToTTML(w) }},
	}
	for _, src := range []string{"testdata/example-in.ssa", "testdata/example-in.ttml", "testdata/example-in.vtt"} {
		s, err := OpenFile(src)
		if err != nil || s == nil {
			continue
		}
		for _, wr := range writers {
			var buf bytes.Buffer
			if err := wr.f(*s, &buf); err != nil {
				continue
			}
			total := buf.Len()
			step := 1
			if total > 3000 {
				step = 5
			}
			reported := 0
			for k := 0; k < total; k += step {
				if err := wr.f(*s, &vpFailingWriter{left: k}); err == nil && reported < 3 {
					fmt.Printf("WITNESS: %s of the cue list read from %s into a writer that fails after %d of %d bytes returned a nil error\n", wr.name, src, k, total)
					reported++
					found++
				}
			}
		}
	}
	if _, err := OpenFile("testdata/does-not-exist.srt"); err == nil {
		fmt.Println("WITNESS: OpenFile of a missing file returned a nil error")
		found++
	}
	if found > 0 {
		t.Fatalf("%d failing inputs", found)
	}
}
