#!/bin/bash
# usage: seedquick.sh <seed-name> <func,func,...>  -- targeted sweep of a seeded change on a scratch copy (development aid)
N=$1; F=$2
rm -rf /tmp/sq && mkdir -p /tmp/sq/repo /tmp/sq/verif/work && rsync -a --exclude .git /repo/ /tmp/sq/repo/ && cp -r /verif/contracts /tmp/sq/verif/
(cd /tmp/sq/repo && patch -p1 -s < /verif/seeded/$N/patch.diff) || exit 2
cd /verif/govc && GOVC_REPO=/tmp/sq/repo GOVC_VERIF=/tmp/sq/verif /verif/bin/govc sweep -t 20 -f "$F" 2>&1 | grep -v "^generated\|^gen " | sed 's/#[0-9]* (/ (/' | sort -u | cut -c1-200
rm -rf /tmp/sq
