#!/bin/bash
# builds the VC generator from vendored sources, offline
set -e
cd "$(dirname "$0")/govc"
export GOFLAGS=-mod=vendor GOPROXY=off GOSUMDB=off GOTOOLCHAIN=local
mkdir -p ../bin ../work ../replays ../evidence
go build -o ../bin/govc .
