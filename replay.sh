#!/bin/bash
# usage: replay.sh <test-file.go> <TestName> [repo-dir]  -- run an in-package test injected by overlay
set -u
f=$(readlink -f "$1"); t=$2; repo=${3:-/repo}
export GOFLAGS=-mod=mod GOPROXY=off GOSUMDB=off GOTOOLCHAIN=local
ov=$(mktemp /verif/work/ov.XXXXXX.json 2>/dev/null || (mkdir -p /verif/work && mktemp /verif/work/ov.XXXXXX.json))
printf '{"Replace":{"%s/zz_verif_replay_test.go":"%s"}}' "$repo" "$f" > "$ov"
(cd "$repo" && ulimit -v 8000000 && go test -overlay "$ov" -vet=off -count=1 -timeout 60s -run "^$t\$" . 2>&1)
rc=$?
rm -f "$ov"
exit $rc
