; lemma millis_k2
; go-expr: math.Floor(float64(n) / float64(time.Millisecond) / float64(math.Pow(10, 3-float64(2))))
; range: 0 <= n < 1e9
; claim: == n / 10000000, and the float64 value is that integer
(set-logic QF_BVFP)
(declare-const d (_ BitVec 64))
(assert (and (bvsle (_ bv0 64) d) (bvslt d (_ bv1000000000 64))))
(assert (not (= ((_ fp.to_sbv 64) RTZ (fp.roundToIntegral RTN (fp.div RNE (fp.div RNE ((_ to_fp 11 53) RNE d) ((_ to_fp 11 53) RNE 1000000.0)) ((_ to_fp 11 53) RNE 10.0)))) (bvsdiv d (_ bv10000000 64)))))
(check-sat)
