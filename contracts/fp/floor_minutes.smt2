; lemma floor_minutes
; go-expr: int(math.Floor(d.Minutes()))
; range: 0 <= d < 3600000000000
; claim: == d / 60000000000
(set-logic QF_BVFP)
(declare-const d (_ BitVec 64))
(assert (and (bvsle (_ bv0 64) d) (bvslt d (_ bv3600000000000 64))))
(assert (not (= ((_ fp.to_sbv 64) RTZ (fp.roundToIntegral RTN (fp.add RNE ((_ to_fp 11 53) RNE (bvsdiv d (_ bv60000000000 64))) (fp.div RNE ((_ to_fp 11 53) RNE (bvsrem d (_ bv60000000000 64))) ((_ to_fp 11 53) RNE 60000000000.0))))) (bvsdiv d (_ bv60000000000 64)))))
(check-sat)
