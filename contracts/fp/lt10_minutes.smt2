; lemma lt10_minutes
; go-expr: d.Minutes() < 10
; range: 0 <= d < 3600000000000
; claim: <==> d < 600000000000
(set-logic QF_BVFP)
(declare-const d (_ BitVec 64))
(assert (and (bvsle (_ bv0 64) d) (bvslt d (_ bv3600000000000 64))))
(assert (not (= (fp.lt (fp.add RNE ((_ to_fp 11 53) RNE (bvsdiv d (_ bv60000000000 64))) (fp.div RNE ((_ to_fp 11 53) RNE (bvsrem d (_ bv60000000000 64))) ((_ to_fp 11 53) RNE 60000000000.0))) ((_ to_fp 11 53) RNE 10.0)) (bvslt d (_ bv600000000000 64)))))
(check-sat)
