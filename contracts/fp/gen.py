#!/usr/bin/env python3
# Generates the floating-point library lemmas (QF_BVFP) used by C16. Each file is a
# transcription of a Go float64 expression (and of time.Duration.Hours/Minutes/Seconds from the
# Go 1.23 source) over a 64-bit integer input, with the claim that its observable integer result
# equals an integer expression. unsat = lemma proved for every input in the stated range.
F = "(_ FloatingPoint 11 53)"
def fp_of_int(bv): return f"((_ to_fp 11 53) RNE {bv})"       # signed bit-vector -> float64 (Go: float64(int64))
def const(x):      return f"((_ to_fp 11 53) RNE {x})"          # decimal constant (exactly representable ones only)
def div(a,b):      return f"(fp.div RNE {a} {b})"
def add(a,b):      return f"(fp.add RNE {a} {b})"
def floor(a):      return f"(fp.roundToIntegral RTN {a})"
def to_sbv(a):     return f"((_ fp.to_sbv 64) RTZ {a})"        # Go: int(x) truncation
def bv(n):         return f"(_ bv{n} 64)"
HOUR, MINUTE, SECOND = 3600*10**9, 60*10**9, 10**9
def header(name, expr, rng, claim):
    return f"; lemma {name}\n; go-expr: {expr}\n; range: {rng}\n; claim: {claim}\n(set-logic QF_BVFP)\n(declare-const d (_ BitVec 64))\n"
def in_range(lo, hi): return f"(assert (and (bvsle {bv(lo)} d) (bvslt d {bv(hi)})))\n"
def dur(unit_bv, unit_real):
    # func (d Duration) Hours() float64 { hour := d / Hour; nsec := d % Hour; return float64(hour) + float64(nsec)/(60*60*1e9) }
    q = f"(bvsdiv d {bv(unit_bv)})"; r = f"(bvsrem d {bv(unit_bv)})"
    return add(fp_of_int(q), div(fp_of_int(r), const(unit_real)))
files = {}
for nm, unit, rng_hi, ten in (("hours", HOUR, 24*HOUR, 10*HOUR), ("minutes", MINUTE, HOUR, 10*MINUTE), ("seconds", SECOND, MINUTE, 10*SECOND)):
    e = dur(unit, f"{unit}.0")
    go = {"hours":"d.Hours()","minutes":"d.Minutes()","seconds":"d.Seconds()"}[nm]
    files[f"floor_{nm}.smt2"] = header(f"floor_{nm}", f"int(math.Floor({go}))", f"0 <= d < {rng_hi}", f"== d / {unit}") + in_range(0, rng_hi) + \
        f"(assert (not (= {to_sbv(floor(e))} (bvsdiv d {bv(unit)}))))\n(check-sat)\n"
    files[f"lt10_{nm}.smt2"] = header(f"lt10_{nm}", f"{go} < 10", f"0 <= d < {rng_hi}", f"<==> d < {ten}") + in_range(0, rng_hi) + \
        f"(assert (not (= (fp.lt {e} {const('10.0')}) (bvslt d {bv(ten)}))))\n(check-sat)\n"
# formatDuration: math.Floor(float64(n) / float64(time.Millisecond) / float64(math.Pow(10, 3-float64(k)))), k in {2,3}; math.Pow(10,1)=10, math.Pow(10,0)=1 (documented special cases)
for k, p, dv in ((3, "1.0", 10**6), (2, "10.0", 10**7)):
    e = div(div(fp_of_int("d"), const("1000000.0")), const(p))
    files[f"millis_k{k}.smt2"] = header(f"millis_k{k}", f"math.Floor(float64(n) / float64(time.Millisecond) / float64(math.Pow(10, 3-float64({k}))))", "0 <= n < 1e9", f"== n / {dv}, and the float64 value is that integer") + in_range(0, 10**9) + \
        f"(assert (not (= {to_sbv(floor(e))} (bvsdiv d {bv(dv)}))))\n(check-sat)\n"
for n, t in files.items(): open(n, "w").write(t)
print(sorted(files))
