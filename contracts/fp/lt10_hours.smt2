; lemma lt10_hours
; go-expr: d.Hours() < 10
; range: 0 <= d < 86400000000000
; claim: <==> d < 36000000000000
(set-logic QF_BVFP)
(declare-const d (_ BitVec 64))
(assert (and (bvsle (_ bv0 64) d) (bvslt d (_ bv86400000000000 64))))
(assert (not (= (fp.lt (fp.add RNE ((_ to_fp 11 53) RNE (bvsdiv d (_ bv3600000000000 64))) (fp.div RNE ((_ to_fp 11 53) RNE (bvsrem d (_ bv3600000000000 64))) ((_ to_fp 11 53) RNE 3600000000000.0))) ((_ to_fp 11 53) RNE 10.0)) (bvslt d (_ bv36000000000000 64)))))
(check-sat)
