#!/bin/bash
# usage: seedrun.sh <PROP> <name> [check args...]
# Confirms the stored seeded change /verif/seeded/<name>/patch.diff in a scratch worktree (suite
# passes with it, demo fails with it and passes without), then applies it to /repo, runs the
# property's check, reverts /repo, and records the outcome in /verif/seeded/<name>/meta.json.
set -u
P=$1; N=$2; shift 2
export GOFLAGS=-mod=mod GOPROXY=off GOSUMDB=off GOTOOLCHAIN=local
S=/verif/seeded/$N
W=/tmp/seedrun-$N
cd /repo && test -z "$(git status --porcelain)" || { echo "REFUSING: /repo has uncommitted changes"; exit 2; }
git -C /repo worktree add -q --detach $W HEAD || exit 2
T=$(grep -o 'func Test[A-Za-z0-9_]*' $S/demo_test.go | head -1 | sed 's/func //')
cd $W
cp $S/demo_test.go zz_seed_test.go
without=$(go test -vet=off -count=1 -run "^$T\$" . 2>&1 | tail -2)
rm -f zz_seed_test.go
git apply $S/patch.diff || { echo "patch does not apply"; cd /; git -C /repo worktree remove --force $W; exit 2; }
suite=$(go test -vet=off -count=1 ./... 2>&1 | tail -3)
cp $S/demo_test.go zz_seed_test.go
with=$(go test -vet=off -count=1 -run "^$T\$" . 2>&1 | tail -6)
cd /; git -C /repo worktree remove --force $W; git -C /repo worktree prune
echo "suite with change: $suite"; echo "demo with change: $with" | tail -3; echo "demo without: $without"
cd /repo && git apply $S/patch.diff || { echo "patch does not apply to /repo"; exit 2; }
cd /verif && out=$(./check $P "$@" 2>&1); rc=$?
git -C /repo checkout -- .
echo "$out" | grep -E "^(VIOLATION|KNOWN|OK|CHECK-BROKEN)" | head -8; echo "check rc=$rc"
python3 - "$P" "$N" "$rc" "$suite" "$with" "$without" "$out" <<'PY'
import json,sys
p,n,rc,suite,w,wo,out=sys.argv[1:8]
json.dump({"property":p,"name":n,"breaks":"see notes.md","needs_to_manifest":"see notes.md",
 "confirmed":{"suite_with_change":suite.strip(),"demo_with_change":w.strip()[-400:],"demo_without_change":wo.strip()},
 "check":{"command":f"./check {p}","exit_code":int(rc),"violation_lines":[l for l in out.split('\n') if l.startswith('VIOLATION')][:10]},
 "detected": int(rc)==1}, open(f"/verif/seeded/{n}/meta.json","w"), indent=1)
PY
