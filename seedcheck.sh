#!/bin/bash
# usage: seedcheck.sh <PROP> <seed-dir> <worktree> <name>
# Confirms a seeded change (suite passes, demo fails with / passes without), stores it under
# /verif/seeded/<name>/ and runs the property check against it in /repo (applied, then reverted).
set -u
P=$1; S=$2; W=$3; N=$4
export GOFLAGS=-mod=mod GOPROXY=off GOSUMDB=off GOTOOLCHAIN=local
T=$(grep -o 'func Test[A-Za-z0-9_]*' $S/demo_test.go | head -1 | sed 's/func //')
cd $W || exit 2
git diff -- . ':!zz_contracts_verif.go' > /tmp/seed-cur.diff
suite=$(go test -vet=off -count=1 ./... 2>&1 | tail -3)
cp $S/demo_test.go zz_seed_test.go
with=$(go test -vet=off -count=1 -run "^$T\$" . 2>&1 | tail -4)
git stash -q -- $(git diff --name-only | grep -v zz_contracts) 
without=$(go test -vet=off -count=1 -run "^$T\$" . 2>&1 | tail -2)
git stash pop -q
rm -f zz_seed_test.go
echo "suite with change: $suite"; echo "demo with change: $with" | tail -3; echo "demo without: $without"
mkdir -p /verif/seeded/$N
cp /tmp/seed-cur.diff /verif/seeded/$N/patch.diff
cp $S/demo_test.go /verif/seeded/$N/demo_test.go
cp $S/notes.md /verif/seeded/$N/notes.md 2>/dev/null
cd /repo && test -z "$(git status --porcelain)" || { echo "REFUSING: /repo has uncommitted changes"; exit 2; }
cd /repo && git apply /verif/seeded/$N/patch.diff || { echo "patch does not apply to /repo"; exit 2; }
cd /verif && out=$(./check $P 2>&1); rc=$?
git -C /repo checkout -- .
echo "$out" | tail -6; echo "check rc=$rc"
python3 - "$P" "$N" "$rc" "$suite" "$with" "$without" "$out" <<'PY'
import json,sys
p,n,rc,suite,w,wo,out=sys.argv[1:8]
json.dump({"property":p,"name":n,"breaks":"see notes.md","needs_to_manifest":"see notes.md",
 "confirmed":{"suite_with_change":suite.strip(),"demo_with_change":w.strip()[-400:],"demo_without_change":wo.strip()},
 "check":{"command":f"./check {p}","exit_code":int(rc),"violation_lines":[l for l in out.split('\n') if l.startswith('VIOLATION')][:10]},
 "detected": int(rc)==1}, open(f"/verif/seeded/{n}/meta.json","w"), indent=1)
PY
