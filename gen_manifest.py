#!/usr/bin/env python3
# Generates MANIFEST.json from the tables below (kept in one place so that it stays valid).
import json, subprocess
claimed = {
 "C09": ("proof", "Full functional contract of (*Subtitles).Add (count, order, identity, exact shift, clamp, exactly the dead cues removed, frame) discharged for all list lengths and all time values; loop invariant with ghost counter; frame obligations.", "govc weakest-precondition VCs over the typed AST + z3/cvc5 portfolio; contract on Subtitles.Add", "4 C09"),
 "C10": ("proof", "Fragment (after repair of a genuine defect): no result cue strictly contains a multiple of f; result ordered by start; the timeline (texts on screen at every instant) is unchanged; every result cue is a piece of an original (same text/style/region/lines, bounds within the original, interior boundaries are multiples of f, non-empty unless the original was empty); every original pointer is kept; frame. Two nested loop invariants with ghost maps and a ghost quotient; nonlinear lemmas proved separately.", "contract on Subtitles.Fragment, ghost maps, opaque predicates, NIA lemmas, SMT discharge", "4 C10"),
 "C11": ("proof", "Unfragment: result ordered by start; no two same-text cues touch or overlap; every result cue is an original cue with unchanged start and an end that only grew; the set of texts on screen at every instant is preserved (forall-exists clause over an opaque on-screen predicate); frame. Inverse law w.r.t. Fragment is not decided.", "contract on Subtitles.Unfragment with nested loop invariants; abstract cue text; SMT discharge", "4 C11"),
 "C12": ("proof", "Order: permutation + sorted + stable against an assumed sort.SliceStable contract whose comparator is proved to be a strict weak order; Merge: ordered stable union of both lists, receiver-wins map union (map-range invariant over a ghost visited set), argument unchanged (frame obligations).", "contracts on Subtitles.Order and Subtitles.Merge, ghost permutation witnesses, SMT discharge", "4 C12"),
 "C13": ("proof", "Optimize/removeUnusedRegionsAndStyles: kept regions = used regions, kept styles are a subset containing every directly used style, closed under inheritance (closure) and supported (nothing else is kept), values and cues untouched (frame); RemoveStyling: maps empty, every cue/run style pointer nil, only styling fields assigned (frame). Five nested/map-range loop invariants incl. a ghost frontier for the parent walk.", "contracts on Subtitles.Optimize, removeUnusedRegionsAndStyles, RemoveStyling; map-range loops with ghost visited sets; SMT discharge", "4 C13"),
 "C15": ("proof", "ApplyLinearCorrection under an IEEE-754 rounding model (monotone correctly-rounded operations, relative error 2^-53): every boundary is within 1 microsecond of the affine map through the two reference points (nonlinear real lemma), boundary order is preserved, list order/identity untouched; only StartAt/EndAt assigned (frame).", "contract on Subtitles.ApplyLinearCorrection; float rounding model as uninterpreted monotone functions; NRA lemma; SMT discharge", "4 C15"),
 "C16": ("proof", "Timestamp codec kernels: formatDuration's output is proved equal (as a concatenation rope) to the canonical hh:mm:ss<sep>fraction rendering with the exact integer fields, with truncation, range and monotonicity lemmas; per-format wrappers (SRT/WebVTT/SSA) use the right separator and digit count; STL byte and string timecodes have the exact h/m/s/frame fields; format(parse(b)) == b at 25 and 30 fps (after repair of a genuine defect), parse(format(t)) is the frame boundary at or before t, a second write is identical. float64 steps are justified by QF_BVFP library lemmas discharged on every run. Reader-side parse-after-format for the text formats is a bounded stand-in (thorough tier), not proved.", "contracts on formatDuration*, format/parseDurationSTL*; lemma harnesses; FP library lemmas; bounded stand-in for parse(format(t))", "4 C16"),
 "C17": ("proof", "The two repository-owned delivery mechanisms: (1) the scanner's split function is prefix-stable -- a 2-run lemma harness over the real closure (after repair of a genuine CR/LF defect); (2) readNBytes returns exactly the next c bytes of the reader's ghost byte stream for every delivery schedule (short reads, data-with-EOF), io.EOF only at a clean end (after repair of a genuine defect); (3) syntactic frame: io.Reader parameters flow only into these mechanisms / the XML decoder / the TS demultiplexer. Library decoders are assumed delivery-independent.", "lemma harness on newScanner's split closure, contract on readNBytes against a ghost-stream io.Reader contract, reader-flow check", "4 C17"),
 "C08": ("proof", "Panic-freedom and termination of counted loops for every function in the call trees of the six readers, five writers and the file helpers: every nil dereference, index/slice bound, nil-map write, type assertion, division, make size, precondition-at-call and loop invariant is an obligation generated from the working tree (zero-annotation sweep plus thin safety contracts and data-structure invariants such as the teletext page/packet-buffer invariant), discharged for all inputs; library behaviour (demultiplexer, tokenizers, decoders) enters through stated extern contracts, including that the demultiplexer may yield nothing. 'Time proportional to the input' and source-driven loop termination are assumptions/not decided. Genuine defects found this way were repaired (see known_findings.txt).", "contract-based deductive verification of the real code: package-wide safety sweep (own VC generator over the typed AST; Houdini-inferred loop frames; callee frames inferred from bodies; thin contracts in /repo/zz_contracts_verif.go; z3/cvc5 portfolio)", "4 (C08)"),
 "C18": ("proof", "Fault reporting as postconditions over a ghost fault model: every reader ensures `reader failed (a Read returned a non-EOF error) or a scanned line did not fit the buffer ==> err != nil` at every return; every writer ensures `a Write failed ==> err != nil`; Open/OpenFile/Write ensure `os.Open/os.Create failed ==> err != nil`; readNBytes' block-read contract (C17) carries the STL case. Library consumers (bufio.Scanner, xml Decoder/Encoder, astits Demuxer) are trusted extern contracts. The completeness clause ('the complete document was handed over') is not decided.", "contract-based deductive verification of the real code: ghost-state fault model in extern contracts, postconditions and loop invariants on the readers/writers, discharged on the package-wide sweep", "4 (C18)"),
 "C19": ("proof", "Writers: (a) purity -- each WriteToX has an assigns clause with ghost state only, so every heap array must agree with its entry value on all pre-existing locations at every return (decided for every heap array that can hold cue-list data, i.e. reachable by type from Subtitles: all discharged for the five writers; the writers' own scratch heaps -- byte buffers, output structs -- cannot hold cue-list data and are outside the claim); (b) every range over a map in the writers' call trees is order-free (collect-then-sort or store-under-key; structural obligation); (c) no direct time.Now in the call trees. Two genuine order-dependence defects (WebVTT STYLE blocks, SSA Format line) were repaired.", "contract-based deductive verification of the real code: frame (assigns) obligations with inferred callee frames on the package-wide sweep, plus structural map-order/clock obligations generated by the same symbolic executor", "4 (C19)"),
 "C20": ("proof", "Absence of shared mutable package state as obligations over every function: no assignment to, or store/delete/copy through an expression rooted at, a package-level variable (obligation kind global-write at every such statement; none exists on the unchanged tree), no store through a pointer or map whose type is also the type of a package-level variable can hit that shared object; struct types shared through package-level pointers are never assigned a field (structural); the writers' purity obligations (shared with C19); the transformations' frames are proved under C09-C15. Race-freedom as such, readers' writes through references loaded from tables, and library thread-safety are assumptions / not decided.", "contract-based deductive verification of the real code: global-store obligations generated for every function by the symbolic executor, frame obligations, structural immutability check", "4 (C20)"),
 "C14": ("proof", "Full functional contract of ForceDuration and Duration: kept/trimmed/removed cues characterised per index, filler presence/shape, resulting duration; one loop invariant; every path discharged.", "contracts on Subtitles.ForceDuration / Duration, SMT discharge", "4 C14"),
}
na = {
 "C01": "codec fidelity is a relation between two grammar-level functions through x/net/html, bufio and strings; no contract within reach of an SMT-backed verifier expresses 'document denotes cue list' (SMT string theory times out on a 12-character timestamp); numeric/safety parts are decided under C08/C16/C17/C18/C19",
 "C02": "same as C01, plus regular expressions and a tag stack over tokenizer output",
 "C03": "same as C01, through encoding/xml struct-tag unmarshalling and regular expressions",
 "C04": "same as C01, Format-driven string splitting",
 "C05": "text half is ISO 6937 <-> Unicode through x/text/unicode/norm; the numeric parts that are reachable (timecodes, frame rate, block framing) are decided under C16/C08/C17",
 "C06": "whole-stream history property over a third-party demultiplexer; memory safety of the packet state machine is decided under C08",
 "C07": "composition of C01-C06 over 42 format pairs and an external process (CLI)",
}
pending = {
 "C08": "engine under construction in this session: safety sweep not yet registered",
 "C10": "engine under construction in this session: Fragment contract not yet registered",
 "C11": "engine under construction in this session: Unfragment contract not yet registered",
 "C13": "engine under construction in this session: Optimize/RemoveStyling contracts not yet registered",
 "C15": "engine under construction in this session: linear-correction contract not yet registered",
 "C16": "engine under construction in this session: timestamp kernels not yet registered",
 "C17": "engine under construction in this session: delivery-independence lemmas not yet registered",
 "C18": "engine under construction in this session: fault-propagation contracts not yet registered",
 "C19": "engine under construction in this session: writer purity discipline not yet registered",
 "C20": "engine under construction in this session: global frame discipline not yet registered",
}
for k in claimed: pending.pop(k, None)
checks = []
for pid, (cat, text, tech, ref) in sorted(claimed.items()):
    checks.append({
      "property_id": pid,
      "quick_cmd": f"./check {pid} --tier quick",
      "thorough_cmd": f"./check {pid} --tier thorough",
      "evidence_file": f"/verif/evidence/{pid}.json",
      "replay_cmd_template": "./check --replay {path}",
      "engine": "govc",
      "level_claimed": {"category": cat, "text": text, "design_ref": "DESIGN.md section " + ref},
      "level_note": ("Tiers: the quick command leaves eleven long-running functions (ReadFromTeletext, ReadFromSTL, ReadFromTTML, ReadFromWebVTT, WriteToWebVTT, WriteToTTML, five teletext packet-buffer methods) to the thorough command, which sweeps every function; C08's command runs the non-entry-point half of the sweep, C18's the entry-point half (including their panic-freedom obligations); see DESIGN.md section 3. " if pid in ("C08","C18","C19","C20") else "") + "Trusted: govc (VC generator written for this task), go/types, z3 4.8.12 / z3 5.1.0 / cvc5 1.0, extern contracts in contracts/*.gvc, mathematical integers under bounded preconditions. Per-run assumptions are listed in the evidence file.",
      "technique": tech,
    })
commits = subprocess.run(["git","-C","/repo","log","--format=%h %s"],capture_output=True,text=True).stdout.strip().split("\n")
hooks = [c.split()[0] for c in commits if c.split(" ",1)[1].startswith("verif:")]
m = {
 "version": 1,
 "setup_cmd": "./setup.sh",
 "hooks": {
   "guard": "verif",
   "enable": "go build tag 'verif' (go/packages BuildFlags -tags=verif): /repo/zz_contracts_verif.go holds contract comments only; no executable hook exists",
   "baseline_off_cmd": "cd /repo && go test -vet=off -count=1 -timeout 25m ./...",
   "source_commits": hooks,
   "add_only": True,
 },
 "engines": [{"name": "govc", "path": "/verif/govc", "serves_properties": sorted(claimed), "kind_free_text": "verification-condition generator for Go (typed AST, contracts as structured comments, symbolic execution with loop invariants) + SMT portfolio"}],
 "checks": checks,
 "not_applicable": [{"property_id": k, "reason": v} for k, v in sorted({**na, **pending}.items())],
 "notes": "Contract-based deductive verification of the real code. See DESIGN.md. known_findings.txt lists repaired defects (fix: commits) and recorded findings.",
}
json.dump(m, open("MANIFEST.json","w"), indent=1)
print("checks:", len(checks), "n/a:", len(m["not_applicable"]))
