package main

// Loading of /repo (working tree, -tags verif) and of the contract comments.

import (
	"fmt"
	"go/ast"
	"go/token"
	"go/types"
	"os"
	"path/filepath"
	"regexp"
	"sort"
	"strconv"
	"strings"

	"golang.org/x/tools/go/packages"
)

const repoPkgPath = "github.com/asticode/go-astisub"

type FuncInfo struct {
	Key      string // "Subtitles.Add", "formatDuration", "newScanner$1"
	Decl     *ast.FuncDecl
	Lit      *ast.FuncLit
	Obj      *types.Func
	Sig      *types.Signature
	Body     *ast.BlockStmt
	File     string
	Contract *Contract
	Parent   *FuncInfo // for closures
}

type Program struct {
	Pkg        *packages.Package
	Fset       *token.FileSet
	Info       *types.Info
	Funcs      map[string]*FuncInfo
	FuncByObj  map[*types.Func]*FuncInfo
	LitInfo    map[*ast.FuncLit]*FuncInfo
	Contracts  map[string]*Contract
	Macros     map[string]*Macro
	Harnesses  map[string]*Harness
	GhostFlds  map[string]Sort
	Externs    map[string]*Contract // keyed by "pkg.Func" or "pkg.Type.Method"
	TableFacts map[string]func(v Val) []*Term
	Warnings   []string
}

type Clause struct {
	Label string
	E     *SExpr
	Src   string
}

type LoopSpec struct {
	Invs      []*Clause
	Decreases *SExpr
	Ghosts    []*GhostVar
	Uses      []*LemmaUse
}

// LemmaUse: a ground instance of a (proved) lemma assumed at a program point.
type LemmaUse struct {
	When string // "entry", "step" (loops) or "return" (function)
	Name string
	Args []*SExpr
}

type GhostVar struct {
	Name, Type string
	Init       *SExpr
	AtEnd      *SExpr
}

type GhostFun struct {
	Name   string
	Params []Binder
	Ret    string
	Body   *SExpr
	State  string // "old" (default): evaluated in the pre-state
	Opaque bool   // uninterpreted + definitional axiom triggered on applications only
}

type Lemma struct {
	Manual    bool // not assumed as a quantified fact: only through `use` instances
	Pure      bool // proved from the quantifier-free entry facts only
	Name      string
	Params    []Binder
	Induction string
	Body      *SExpr
}

type Contract struct {
	Key       string
	Params    []string // declared parameter names (receiver first) when given in the header
	Results   []string
	Requires  []*Clause
	Ensures   []*Clause
	Assigns   []*SExpr
	HasAssign bool
	Loops     map[int]*LoopSpec
	GhostFuns []*GhostFun
	Lemmas    []*Lemma
	GhostOuts []*GhostFun               // ghost result functions (witnessed per return)
	Witness   map[int]map[string]*SExpr // return ordinal (0 = all) -> ghost-out name -> body
	Opts      map[string]string
	Props     []string
	Src       string
}

type Macro struct {
	Name   string
	Params []Binder
	Body   *SExpr
	Opaque bool // expanded into a state-specific uninterpreted predicate over its scalar parameters
}

type HStep struct {
	Kind string // "call", "let", "assume"
	Name string // let-bound result names (comma separated) for calls
	E    *SExpr
}

type Harness struct {
	Name     string
	Params   []Binder
	Requires []*Clause
	Steps    []HStep
	Ensures  []*Clause
	Props    []string
	Opts     map[string]string
}

func loadProgram(dir string, overlay map[string][]byte) (*Program, error) {
	cfg := &packages.Config{
		Mode:       packages.LoadAllSyntax,
		Dir:        dir,
		BuildFlags: []string{"-tags=verif"},
		Overlay:    overlay,
		Env:        append(os.Environ(), "GOFLAGS=-mod=mod", "GOPROXY=off", "GOSUMDB=off", "GOTOOLCHAIN=local"),
	}
	pkgs, err := packages.Load(cfg, ".")
	if err != nil {
		return nil, err
	}
	if len(pkgs) != 1 {
		return nil, fmt.Errorf("expected one package, got %d", len(pkgs))
	}
	pkg := pkgs[0]
	if len(pkg.Errors) > 0 {
		return nil, fmt.Errorf("package errors: %v", pkg.Errors)
	}
	p := &Program{Pkg: pkg, Fset: pkg.Fset, Info: pkg.TypesInfo, Funcs: map[string]*FuncInfo{}, FuncByObj: map[*types.Func]*FuncInfo{},
		LitInfo: map[*ast.FuncLit]*FuncInfo{}, Contracts: map[string]*Contract{}, Macros: map[string]*Macro{}, Harnesses: map[string]*Harness{},
		GhostFlds: map[string]Sort{}, Externs: map[string]*Contract{}}
	for _, f := range pkg.Syntax {
		fname := filepath.Base(p.Fset.Position(f.Pos()).Filename)
		if strings.HasSuffix(fname, "_test.go") {
			continue
		}
		for _, d := range f.Decls {
			fd, ok := d.(*ast.FuncDecl)
			if !ok || fd.Body == nil {
				continue
			}
			obj := p.Info.Defs[fd.Name].(*types.Func)
			key := funcKey(obj)
			fi := &FuncInfo{Key: key, Decl: fd, Obj: obj, Sig: obj.Type().(*types.Signature), Body: fd.Body, File: fname}
			p.Funcs[key] = fi
			p.FuncByObj[obj] = fi
			// closures
			n := 0
			ast.Inspect(fd.Body, func(nd ast.Node) bool {
				if fl, ok := nd.(*ast.FuncLit); ok {
					n++
					k := fmt.Sprintf("%s$%d", key, n)
					li := &FuncInfo{Key: k, Lit: fl, Sig: p.Info.TypeOf(fl).(*types.Signature), Body: fl.Body, File: fname, Parent: fi}
					p.Funcs[k] = li
					p.LitInfo[fl] = li
				}
				return true
			})
		}
		// contracts
		for _, cg := range f.Comments {
			var lines []string
			for _, c := range cg.List {
				if strings.HasPrefix(c.Text, "//@") {
					lines = append(lines, strings.TrimPrefix(c.Text, "//@"))
				}
			}
			if len(lines) > 0 {
				if err := p.parseContractLines(lines, fname); err != nil {
					return nil, err
				}
			}
		}
	}
	for k, c := range p.Contracts {
		if fi, ok := p.Funcs[k]; ok {
			fi.Contract = c
		} else {
			return nil, fmt.Errorf("contract for unknown function %q", k)
		}
	}
	return p, nil
}

func funcKey(f *types.Func) string {
	sig := f.Type().(*types.Signature)
	if r := sig.Recv(); r != nil {
		t := r.Type()
		if p, ok := t.(*types.Pointer); ok {
			t = p.Elem()
		}
		if n, ok := t.(*types.Named); ok {
			return n.Obj().Name() + "." + f.Name()
		}
	}
	return f.Name()
}

// loadExternFile parses extern contracts from a .gvc file (same syntax, without //@).
func (p *Program) loadSpecFile(path string) error {
	b, err := os.ReadFile(path)
	if err != nil {
		return err
	}
	var lines []string
	for _, l := range strings.Split(string(b), "\n") {
		t := strings.TrimSpace(l)
		if t == "" || strings.HasPrefix(t, "#") {
			continue
		}
		lines = append(lines, l)
	}
	return p.parseContractLines(lines, filepath.Base(path))
}

var (
	reFuncHdr    = regexp.MustCompile(`^func\s+(?:\(\s*(\w+)\s+\*?(\w+)\s*\)\s*)?([\w$.]+)\s*\(([^)]*)\)\s*(.*)$`)
	reExternHdr  = regexp.MustCompile(`^extern\s+([\w.*()]+)\s*\(([^)]*)\)\s*(.*)$`)
	reLoopHdr    = regexp.MustCompile(`^loop\s+(\d+)\s*:\s*(.*)$`)
	reLabel      = regexp.MustCompile(`^\[([\w.-]+)\]\s*(.*)$`)
	reMacro      = regexp.MustCompile(`^(?:pred|pure)\s+(opaque\s+)?(\w+)\s*\(([^)]*)\)\s*=\s*(.*)$`)
	reGhostFun   = regexp.MustCompile(`^ghostfun\s+(opaque\s+)?(\w+)\s*\(([^)]*)\)\s*([\w*][\w.*]*)\s*=\s*(.*)$`)
	reGhostOut   = regexp.MustCompile(`^ghostout\s+(\w+)\s*\(([^)]*)\)\s*(\w[\w.*]*)\s*$`)
	reWitness    = regexp.MustCompile(`^witness\s+(?:return\s+(\d+)\s*:\s*)?(\w+)\s*\(([^)]*)\)\s*=\s*(.*)$`)
	reLemma      = regexp.MustCompile(`^lemma\s+((?:pure\s+|manual\s+)*)(\w+)\s*\(([^)]*)\)\s*(?:by\s+induction\s+on\s+(\w+)\s*)?:\s*(.*)$`)
	reGhostVar   = regexp.MustCompile(`^ghost\s+(\w+)\s+([\w.*]+)\s*=\s*(.*?)(?:\s*;\s*at_end\s+(.*))?$`)
	_            = 0
	reHarness    = regexp.MustCompile(`^harness\s+(\w+)\s*\(([^)]*)\)\s*$`)
	reGhostField = regexp.MustCompile(`^ghostfield\s+(\w+)\s+(\w+)\s*$`)
	keywords     = []string{"func ", "extern ", "requires ", "ensures ", "assigns ", "loop ", "pred ", "pure ", "ghostfun ", "ghostout ", "witness ", "lemma ", "harness ", "call ", "let ", "assume ", "opt ", "prop ", "ghostfield ", "end"}
)

func parseBinders(s string) []Binder {
	var out []Binder
	s = strings.TrimSpace(s)
	if s == "" {
		return nil
	}
	parts := strings.Split(s, ",")
	var pending []string
	for _, p := range parts {
		f := strings.Fields(strings.TrimSpace(p))
		if len(f) == 1 {
			pending = append(pending, f[0])
			continue
		}
		if len(f) >= 2 {
			ty := strings.Join(f[1:], "")
			for _, n := range pending {
				out = append(out, Binder{n, ty})
			}
			pending = nil
			out = append(out, Binder{f[0], ty})
		}
	}
	for _, n := range pending {
		out = append(out, Binder{n, "int"})
	}
	return out
}

func (p *Program) parseContractLines(raw []string, file string) error {
	// join continuation lines
	var lines []string
	for _, l := range raw {
		t := strings.TrimSpace(l)
		if t == "" {
			continue
		}
		if strings.HasPrefix(t, "//") {
			continue
		}
		isKw := false
		for _, k := range keywords {
			if strings.HasPrefix(t, k) || t == strings.TrimSpace(k) {
				isKw = true
				break
			}
		}
		if isKw || len(lines) == 0 {
			lines = append(lines, t)
		} else {
			lines[len(lines)-1] += " " + t
		}
	}
	var cur *Contract
	var curH *Harness
	mkClause := func(s string) (*Clause, error) {
		label := ""
		if m := reLabel.FindStringSubmatch(s); m != nil {
			label, s = m[1], m[2]
		}
		e, err := ParseSpec(s)
		if err != nil {
			return nil, fmt.Errorf("%s: %v", file, err)
		}
		return &Clause{Label: label, E: e, Src: s}, nil
	}
	for _, l := range lines {
		switch {
		case strings.HasPrefix(l, "func "):
			m := reFuncHdr.FindStringSubmatch(l)
			if m == nil {
				return fmt.Errorf("%s: bad func header %q", file, l)
			}
			key := m[3]
			if m[2] != "" {
				key = m[2] + "." + m[3]
			}
			cur = &Contract{Key: key, Loops: map[int]*LoopSpec{}, Witness: map[int]map[string]*SExpr{}, Opts: map[string]string{}, Src: file}
			if m[1] != "" {
				cur.Params = append(cur.Params, m[1])
			}
			for _, b := range parseBinders(m[4]) {
				cur.Params = append(cur.Params, b.Name)
			}
			curH = nil
			if _, dup := p.Contracts[key]; dup {
				return fmt.Errorf("%s: duplicate contract for %s", file, key)
			}
			p.Contracts[key] = cur
		case strings.HasPrefix(l, "extern "):
			m := reExternHdr.FindStringSubmatch(l)
			if m == nil {
				return fmt.Errorf("%s: bad extern header %q", file, l)
			}
			cur = &Contract{Key: m[1], Loops: map[int]*LoopSpec{}, Witness: map[int]map[string]*SExpr{}, Opts: map[string]string{}, Src: file}
			for _, b := range parseBinders(m[2]) {
				cur.Params = append(cur.Params, b.Name)
			}
			res := strings.TrimSpace(m[3])
			res = strings.Trim(res, "()")
			for _, b := range parseBinders(res) {
				cur.Results = append(cur.Results, b.Name)
			}
			curH = nil
			p.Externs[m[1]] = cur
		case strings.HasPrefix(l, "harness "):
			m := reHarness.FindStringSubmatch(l)
			if m == nil {
				return fmt.Errorf("%s: bad harness header %q", file, l)
			}
			curH = &Harness{Name: m[1], Params: parseBinders(m[2]), Opts: map[string]string{}}
			cur = nil
			p.Harnesses[m[1]] = curH
		case strings.HasPrefix(l, "pred ") || strings.HasPrefix(l, "pure "):
			m := reMacro.FindStringSubmatch(l)
			if m == nil {
				return fmt.Errorf("%s: bad macro %q", file, l)
			}
			e, err := ParseSpec(m[4])
			if err != nil {
				return fmt.Errorf("%s: %v", file, err)
			}
			p.Macros[m[2]] = &Macro{Name: m[2], Params: parseBinders(m[3]), Body: e, Opaque: m[1] != ""}
		case strings.HasPrefix(l, "ghostfield "):
			m := reGhostField.FindStringSubmatch(l)
			if m == nil {
				return fmt.Errorf("%s: bad ghostfield %q", file, l)
			}
			switch m[2] {
			case "bool":
				p.GhostFlds[m[1]] = SBool
			case "string":
				p.GhostFlds[m[1]] = SStr
			default:
				p.GhostFlds[m[1]] = SInt
			}
		case strings.HasPrefix(l, "requires "):
			c, err := mkClause(strings.TrimPrefix(l, "requires "))
			if err != nil {
				return err
			}
			if curH != nil {
				curH.Requires = append(curH.Requires, c)
			} else if cur != nil {
				cur.Requires = append(cur.Requires, c)
			}
		case strings.HasPrefix(l, "ensures "):
			c, err := mkClause(strings.TrimPrefix(l, "ensures "))
			if err != nil {
				return err
			}
			if curH != nil {
				curH.Ensures = append(curH.Ensures, c)
			} else if cur != nil {
				cur.Ensures = append(cur.Ensures, c)
			}
		case strings.HasPrefix(l, "assigns "):
			if cur == nil {
				return fmt.Errorf("%s: assigns outside contract", file)
			}
			cur.HasAssign = true
			body := strings.TrimSpace(strings.TrimPrefix(l, "assigns "))
			if body != "nothing" {
				for _, part := range splitTop(body, ',') {
					e, err := ParseSpec(strings.TrimSpace(part))
					if err != nil {
						return fmt.Errorf("%s: %v", file, err)
					}
					cur.Assigns = append(cur.Assigns, e)
				}
			}
		case strings.HasPrefix(l, "loop "):
			if cur == nil {
				return fmt.Errorf("%s: loop clause outside contract", file)
			}
			m := reLoopHdr.FindStringSubmatch(l)
			if m == nil {
				return fmt.Errorf("%s: bad loop clause %q", file, l)
			}
			n, _ := strconv.Atoi(m[1])
			ls := cur.Loops[n]
			if ls == nil {
				ls = &LoopSpec{}
				cur.Loops[n] = ls
			}
			rest := m[2]
			switch {
			case strings.HasPrefix(rest, "invariant "):
				c, err := mkClause(strings.TrimPrefix(rest, "invariant "))
				if err != nil {
					return err
				}
				ls.Invs = append(ls.Invs, c)
			case strings.HasPrefix(rest, "decreases "):
				e, err := ParseSpec(strings.TrimPrefix(rest, "decreases "))
				if err != nil {
					return fmt.Errorf("%s: %v", file, err)
				}
				ls.Decreases = e
			case strings.HasPrefix(rest, "use "):
				f := strings.Fields(rest)
				if len(f) < 3 {
					return fmt.Errorf("%s: bad use %q", file, rest)
				}
				e, err := ParseSpec(strings.TrimSpace(strings.TrimPrefix(strings.TrimPrefix(rest, "use "), f[1])))
				if err != nil {
					return fmt.Errorf("%s: %v", file, err)
				}
				if e.Op != "call" || e.Args[0].Op != "id" {
					return fmt.Errorf("%s: use expects lemma(args): %q", file, rest)
				}
				ls.Uses = append(ls.Uses, &LemmaUse{When: f[1], Name: e.Args[0].Tok, Args: e.Args[1:]})
			case strings.HasPrefix(rest, "ghost "):
				gm := reGhostVar.FindStringSubmatch(rest)
				if gm == nil {
					return fmt.Errorf("%s: bad ghost %q", file, rest)
				}
				g := &GhostVar{Name: gm[1], Type: gm[2]}
				var err error
				if g.Init, err = ParseSpec(gm[3]); err != nil {
					return fmt.Errorf("%s: %v", file, err)
				}
				if gm[4] != "" {
					if g.AtEnd, err = ParseSpec(gm[4]); err != nil {
						return fmt.Errorf("%s: %v", file, err)
					}
				}
				ls.Ghosts = append(ls.Ghosts, g)
			default:
				return fmt.Errorf("%s: bad loop clause %q", file, l)
			}
		case strings.HasPrefix(l, "ghostfun "):
			m := reGhostFun.FindStringSubmatch(l)
			if m == nil || cur == nil {
				return fmt.Errorf("%s: bad ghostfun %q", file, l)
			}
			e, err := ParseSpec(m[5])
			if err != nil {
				return fmt.Errorf("%s: %v", file, err)
			}
			cur.GhostFuns = append(cur.GhostFuns, &GhostFun{Name: m[2], Params: parseBinders(m[3]), Ret: m[4], Body: e, Opaque: m[1] != ""})
		case strings.HasPrefix(l, "ghostout "):
			m := reGhostOut.FindStringSubmatch(l)
			if m == nil || cur == nil {
				return fmt.Errorf("%s: bad ghostout %q", file, l)
			}
			cur.GhostOuts = append(cur.GhostOuts, &GhostFun{Name: m[1], Params: parseBinders(m[2]), Ret: m[3]})
		case strings.HasPrefix(l, "witness "):
			m := reWitness.FindStringSubmatch(l)
			if m == nil || cur == nil {
				return fmt.Errorf("%s: bad witness %q", file, l)
			}
			n := 0
			if m[1] != "" {
				n, _ = strconv.Atoi(m[1])
			}
			e, err := ParseSpec(m[4])
			if err != nil {
				return fmt.Errorf("%s: %v", file, err)
			}
			if cur.Witness[n] == nil {
				cur.Witness[n] = map[string]*SExpr{}
			}
			cur.Witness[n][m[2]] = e
			_ = m[3]
		case strings.HasPrefix(l, "lemma "):
			m := reLemma.FindStringSubmatch(l)
			if m == nil || cur == nil {
				return fmt.Errorf("%s: bad lemma %q", file, l)
			}
			e, err := ParseSpec(m[5])
			if err != nil {
				return fmt.Errorf("%s: %v", file, err)
			}
			cur.Lemmas = append(cur.Lemmas, &Lemma{Name: m[2], Params: parseBinders(m[3]), Induction: m[4], Body: e, Pure: strings.Contains(m[1], "pure"), Manual: strings.Contains(m[1], "manual")})
		case strings.HasPrefix(l, "call ") || strings.HasPrefix(l, "let ") || strings.HasPrefix(l, "assume "):
			if curH == nil {
				return fmt.Errorf("%s: step outside harness: %q", file, l)
			}
			kind := strings.Fields(l)[0]
			rest := strings.TrimSpace(strings.TrimPrefix(l, kind))
			name := ""
			if kind == "let" {
				i := strings.Index(rest, "=")
				if i < 0 {
					return fmt.Errorf("%s: bad let %q", file, l)
				}
				name = strings.TrimSpace(rest[:i])
				rest = strings.TrimSpace(rest[i+1:])
			}
			e, err := ParseSpec(rest)
			if err != nil {
				return fmt.Errorf("%s: %v", file, err)
			}
			curH.Steps = append(curH.Steps, HStep{Kind: kind, Name: name, E: e})
		case strings.HasPrefix(l, "opt "):
			f := strings.Fields(l)
			val := "true"
			if len(f) > 2 {
				val = strings.Join(f[2:], " ")
			}
			if curH != nil {
				curH.Opts[f[1]] = val
			} else if cur != nil {
				cur.Opts[f[1]] = val
			}
		case strings.HasPrefix(l, "prop "):
			f := strings.Fields(l)[1:]
			if curH != nil {
				curH.Props = append(curH.Props, f...)
			} else if cur != nil {
				cur.Props = append(cur.Props, f...)
			}
		case l == "end":
			cur, curH = nil, nil
		default:
			return fmt.Errorf("%s: cannot parse contract line %q", file, l)
		}
	}
	return nil
}

func splitTop(s string, sep byte) []string {
	var out []string
	depth := 0
	start := 0
	for i := 0; i < len(s); i++ {
		switch s[i] {
		case '(', '[':
			depth++
		case ')', ']':
			depth--
		default:
			if s[i] == sep && depth == 0 {
				out = append(out, s[start:i])
				start = i + 1
			}
		}
	}
	return append(out, s[start:])
}

func (p *Program) sortedFuncKeys() []string {
	var ks []string
	for k := range p.Funcs {
		ks = append(ks, k)
	}
	sort.Strings(ks)
	return ks
}

func (p *Program) pos(n ast.Node) string {
	ps := p.Fset.Position(n.Pos())
	return fmt.Sprintf("%s:%d", filepath.Base(ps.Filename), ps.Line)
}
