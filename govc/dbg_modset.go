package main

import (
	"fmt"
	"strings"
)

func cmdModset(keys []string) int {
	p, err := loadAll(nil)
	if err != nil {
		fmt.Println(err)
		return 2
	}
	sweepMode = true
	for _, k := range keys {
		fi := p.Funcs[k]
		if fi == nil {
			fmt.Println("no such function", k)
			continue
		}
		ex := newExec(p, fi)
		ex.curFn = fi
		ex.prepareFunc(fi)
		ms := ex.funcModSet(fi, 0)
		var gs []string
		for _, h := range ms.heapNames() {
			if strings.HasPrefix(h, "G$") {
				gs = append(gs, h)
			}
		}
		fmt.Printf("%s: %d heaps, ghost %v\n", k, len(ms.heaps), gs)
	}
	return 0
}
