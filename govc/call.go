package main

// Calls: builtins, conversions, contracts (modular), inlining, externs.

import (
	"fmt"
	"go/ast"
	"go/types"
	"sort"
	"strings"
)

func (ex *Exec) staticCallee(call *ast.CallExpr) *types.Func {
	switch f := unparen(call.Fun).(type) {
	case *ast.Ident:
		if o, ok := ex.P.Info.Uses[f].(*types.Func); ok {
			return o
		}
	case *ast.SelectorExpr:
		if sel, ok := ex.P.Info.Selections[f]; ok {
			if sel.Kind() == types.MethodVal {
				if isIface(sel.Recv()) {
					// interface method: static only when declared outside (extern contract by interface)
					if fn, ok := sel.Obj().(*types.Func); ok {
						if fn.Pkg() == nil || fn.Pkg().Path() != repoPkgPath {
							return fn
						}
					}
					return nil
				}
				return sel.Obj().(*types.Func)
			}
			return nil
		}
		if o, ok := ex.P.Info.Uses[f.Sel].(*types.Func); ok {
			return o
		}
	}
	return nil
}

func externKey(f *types.Func) string {
	sig := f.Type().(*types.Signature)
	pkg := ""
	if f.Pkg() != nil {
		pkg = f.Pkg().Name()
	}
	if r := sig.Recv(); r != nil {
		t := r.Type()
		if p, ok := t.(*types.Pointer); ok {
			t = p.Elem()
		}
		if n, ok := t.(*types.Named); ok {
			if n.Obj().Pkg() != nil {
				pkg = n.Obj().Pkg().Name()
			}
			return pkg + "." + n.Obj().Name() + "." + f.Name()
		}
		return pkg + ".?." + f.Name()
	}
	return pkg + "." + f.Name()
}

func (ex *Exec) externContract(f *types.Func) *Contract {
	return ex.P.Externs[externKey(f)]
}

// implementations returns in-package methods named m on types implementing iface.
func (ex *Exec) implementations(iface types.Type, m string) []*FuncInfo {
	it, ok := iface.Underlying().(*types.Interface)
	if !ok {
		return nil
	}
	var out []*FuncInfo
	scope := ex.P.Pkg.Types.Scope()
	for _, name := range scope.Names() {
		tn, ok := scope.Lookup(name).(*types.TypeName)
		if !ok {
			continue
		}
		for _, t := range []types.Type{tn.Type(), types.NewPointer(tn.Type())} {
			if types.Implements(t, it) {
				if fi, ok := ex.P.Funcs[tn.Name()+"."+m]; ok {
					out = append(out, fi)
				}
				break
			}
		}
	}
	return out
}

func (ex *Exec) evalCall(st *State, call *ast.CallExpr) []Val {
	// conversion
	if tv, ok := ex.P.Info.Types[call.Fun]; ok && tv.IsType() {
		v := ex.eval(st, call.Args[0])
		return []Val{ex.convert(st, call, v, tv.Type)}
	}
	// builtins
	if id, ok := unparen(call.Fun).(*ast.Ident); ok {
		if b, ok := ex.P.Info.Uses[id].(*types.Builtin); ok {
			return ex.evalBuiltin(st, call, b.Name())
		}
	}
	sig, _ := ex.typeOf(call.Fun).Underlying().(*types.Signature)
	if sig == nil {
		ex.unsupported(call, "call of non-function")
	}
	callee := ex.staticCallee(call)
	if callee != nil {
		var recv *Val
		var recvExpr ast.Expr
		if sel, ok := unparen(call.Fun).(*ast.SelectorExpr); ok {
			if s, ok := ex.P.Info.Selections[sel]; ok && s.Kind() == types.MethodVal {
				r := ex.evalRecv(st, sel, s, callee)
				recv = &r
				recvExpr = sel.X
			}
		}
		_ = recvExpr
		args := ex.evalArgs(st, call, sig)
		if fi, ok := ex.P.FuncByObj[callee]; ok {
			return ex.callInPackage(st, call, fi, recv, args)
		}
		return ex.callExtern(st, call, callee, recv, args)
	}
	// dynamic calls
	if sel, ok := unparen(call.Fun).(*ast.SelectorExpr); ok {
		if s, ok := ex.P.Info.Selections[sel]; ok && s.Kind() == types.MethodVal && isIface(s.Recv()) {
			recv := ex.eval(st, sel.X)
			args := ex.evalArgs(st, call, sig)
			return ex.callInterface(st, call, s, recv, args)
		}
	}
	fv := ex.eval(st, call.Fun)
	args := ex.evalArgs(st, call, sig)
	switch a := fv.Aux.(type) {
	case *FuncInfo:
		return ex.inline(st, call, a, nil, args)
	case *types.Func:
		if fi, ok := ex.P.FuncByObj[a]; ok {
			return ex.callInPackage(st, call, fi, nil, args)
		}
	case *MethodVal:
		if fi, ok := ex.P.FuncByObj[a.Fn]; ok {
			r := a.Recv
			return ex.callInPackage(st, call, fi, &r, args)
		}
	}
	// unknown function value: total, heap-neutral, typed result
	ex.note("call through unknown function value " + ex.exprStr(call.Fun) + ": result unconstrained")
	rs := ex.havocResults(st, sig, "dyn")
	for _, r := range rs {
		if isIface(r.T) && len(r.C) == 2 {
			// ASSUMED: a non-nil interface value returned through a function-typed parameter does not
			// hold a nil pointer (the only such parameter, fs, receives func() styler { return newSTLStyler() })
			ex.assumedExt["results of calls through function-typed parameters ("+ex.exprStr(call.Fun)+"): a non-nil interface result holds a non-nil receiver"] = true
			st.assume(Implies(Neq(r.C[0], IntLit(0)), Neq(r.C[1], IntLit(0))))
		}
	}
	return rs
}

func (ex *Exec) havocResults(st *State, sig *types.Signature, tag string) []Val {
	var out []Val
	for i := 0; i < sig.Results().Len(); i++ {
		v := freshVal(tag+".r", sig.Results().At(i).Type())
		st.assumeAll(typeFacts(v))
		st.assumeAll(ex.allocFacts(st, v))
		out = append(out, v)
	}
	return out
}

// allocFacts: ids in a fresh value are below the allocation counter.
func (ex *Exec) allocFacts(st *State, v Val) []*Term {
	var out []*Term
	cs := flatten(v.T)
	if len(cs) != len(v.C) {
		return nil
	}
	for i, c := range cs {
		switch c.Kind {
		case CRef, CArrID, CMap:
			out = append(out, Lt(v.C[i], st.ctr))
		}
	}
	return out
}

func (ex *Exec) evalRecv(st *State, sel *ast.SelectorExpr, s *types.Selection, callee *types.Func) Val {
	x := ex.eval(st, sel.X)
	// implicit embedded path
	path := s.Index()
	if len(path) > 1 {
		x = ex.selectPath(st, sel, x, path[:len(path)-1])
	}
	rt := callee.Type().(*types.Signature).Recv().Type()
	_, wantPtr := rt.Underlying().(*types.Pointer)
	_, havePtr := x.T.Underlying().(*types.Pointer)
	if isIface(rt) {
		return x
	}
	switch {
	case wantPtr && !havePtr:
		// addressable value receiver: needs a boxed variable
		if id, ok := unparen(sel.X).(*ast.Ident); ok {
			if o, ok := ex.P.Info.Uses[id].(*types.Var); ok && ex.boxed[o] {
				return scalar(rt, st.vars[o].C[0])
			}
		}
		// field of a heap struct with pointer-receiver method: copy-in/copy-out is not modelled
		ex.unsupported(sel, "pointer-receiver call on unboxed value %s", ex.exprStr(sel.X))
	case !wantPtr && havePtr:
		ex.nilCheck(st, sel, x)
		return st.loadStruct(x.C[0], rt)
	}
	return x
}

func (ex *Exec) evalArgs(st *State, call *ast.CallExpr, sig *types.Signature) []Val {
	var args []Val
	np := sig.Params().Len()
	if tup, isTuple := ex.firstArgType(call).(*types.Tuple); len(call.Args) == 1 && np > 1 && isTuple && tup.Len() > 1 {
		// f(g()) with multi-value g
		vs := ex.evalMulti(st, call.Args[0], np)
		for i, v := range vs {
			args = append(args, ex.coerce(st, call, v, sig.Params().At(i).Type()))
		}
		return args
	}
	for i, a := range call.Args {
		if sig.Variadic() && i >= np-1 {
			break
		}
		args = append(args, ex.evalTyped(st, a, sig.Params().At(i).Type()))
	}
	if sig.Variadic() {
		vt := sig.Params().At(np - 1).Type()
		et := vt.(*types.Slice).Elem()
		rest := call.Args[np-1:]
		if call.Ellipsis.IsValid() {
			args = append(args, ex.evalTyped(st, rest[0], vt))
		} else if len(rest) == 0 {
			args = append(args, zeroVal(vt))
		} else {
			arr := st.alloc()
			sl := mkSlice(vt, arr, IntLit(0), IntLit(int64(len(rest))), IntLit(int64(len(rest))))
			for i, a := range rest {
				st.elemStore(sl, IntLit(int64(i)), ex.evalTyped(st, a, et))
			}
			args = append(args, sl)
		}
	}
	return args
}

// ---- builtins ----

func (ex *Exec) evalBuiltin(st *State, call *ast.CallExpr, name string) []Val {
	switch name {
	case "len":
		x := ex.eval(st, call.Args[0])
		switch u := x.T.Underlying().(type) {
		case *types.Slice:
			return []Val{intVal(x.C[2])}
		case *types.Basic:
			return []Val{intVal(StrLen(x.term()))}
		case *types.Array:
			return []Val{intVal(IntLit(u.Len()))}
		case *types.Map:
			// the number of entries is a function of the map's domain
			_, d := st.mapDom(x)
			dom := Select(d, x.C[0])
			fn := "maplen$" + sanitize(string(dom.sort))
			DeclareFun(fn, []Sort{dom.sort}, SInt)
			n := App(fn, SInt, dom)
			st.assume(Ge(n, IntLit(0)))
			st.assume(Implies(Eq(x.C[0], IntLit(0)), Eq(n, IntLit(0))))
			// a present key implies at least one entry
			return []Val{intVal(n)}
		case *types.Pointer:
			if a, ok := u.Elem().Underlying().(*types.Array); ok {
				return []Val{intVal(IntLit(a.Len()))}
			}
		}
		ex.unsupported(call, "len of %v", x.T)
	case "cap":
		x := ex.eval(st, call.Args[0])
		if _, ok := x.T.Underlying().(*types.Slice); ok {
			return []Val{intVal(x.C[3])}
		}
		ex.unsupported(call, "cap of %v", x.T)
	case "append":
		return []Val{ex.evalAppend(st, call)}
	case "make":
		t := ex.typeOf(call.Args[0])
		switch u := t.Underlying().(type) {
		case *types.Slice:
			n := ex.eval(st, call.Args[1]).term()
			cp := n
			if len(call.Args) > 2 {
				cp = ex.eval(st, call.Args[2]).term()
			}
			ex.oblig(st, "make-size", call, ex.exprStr(call), And(Le(IntLit(0), n), Le(n, cp)))
			arr := st.alloc()
			for _, c := range flatten(u.Elem()) {
				nm, h := st.elemHeap(u.Elem(), c)
				st.heapSet(nm, Store(h, arr, zeroOfSort(SArr(SInt, c.Sort))))
			}
			ex.mutCount++
			return []Val{mkSlice(t, arr, IntLit(0), n, cp)}
		case *types.Map:
			ref := st.alloc()
			m := Val{T: t, C: []*Term{ref}}
			dn, d := st.mapDom(m)
			st.heapSet(dn, Store(d, ref, zeroOfSort(SArr(mapKeySort(t), SBool))))
			ex.mutCount++
			return []Val{m}
		}
		ex.unsupported(call, "make of %v", t)
	case "new":
		t := ex.typeOf(call.Args[0])
		ref := st.alloc()
		st.storeStruct(ref, t, zeroVal(t))
		ex.mutCount++
		return []Val{scalar(types.NewPointer(t), ref)}
	case "delete":
		if g := ex.globalRoot(call.Args[0]); g != nil {
			ex.obligNoAssume(st, "global-write", call, "delete from a map reached from package-level variable "+g.Name(), False)
		}
		m := ex.eval(st, call.Args[0])
		k := ex.eval(st, call.Args[1])
		ex.mutCount++
		// delete on a nil map is a no-op
		key := ex.mapKey(st, m, k)
		dn, d := st.mapDom(m)
		nd := Store(d, m.C[0], Store(Select(d, m.C[0]), key, False))
		st.heapSet(dn, Ite(Eq(m.C[0], IntLit(0)), d, nd))
		return nil
	case "copy":
		if g := ex.globalRoot(call.Args[0]); g != nil {
			ex.obligNoAssume(st, "global-write", call, "copy into memory reached from package-level variable "+g.Name(), False)
		}
		dst := ex.eval(st, call.Args[0])
		src := ex.eval(st, call.Args[1])
		dp := sliceParts(dst)
		var srcLen *Term
		var srcElem func(i *Term, k int) *Term
		et := elemType(dst.T)
		cs := flatten(et)
		if isString(src.T) {
			srcLen = StrLen(src.term())
			srcElem = func(i *Term, k int) *Term { return StrAt(src.term(), i) }
		} else {
			sp := sliceParts(src)
			srcLen = sp.len
			heaps := make([]*Term, len(cs))
			for k, c := range cs {
				_, heaps[k] = st.elemHeap(et, c)
			}
			srcElem = func(i *Term, k int) *Term { return Select(Select(heaps[k], sp.arr), Add(sp.off, i)) }
		}
		n := Ite(Le(dp.len, srcLen), dp.len, srcLen)
		for k, c := range cs {
			nm, h := st.elemHeap(et, c)
			nw := Fresh("copied", SArr(SInt, c.Sort))
			i := BVar("i", SInt)
			old := Select(h, dp.arr)
			body := Eq(Select(nw, i), Ite(And(Le(dp.off, i), Lt(i, Add(dp.off, n))), srcElem(Sub(i, dp.off), k), Select(old, i)))
			st.assume(Forall([]*Term{i}, body, []*Term{Select(nw, i)}))
			st.heapSet(nm, Store(h, dp.arr, nw))
		}
		ex.mutCount++
		return []Val{intVal(n)}
	case "panic":
		ex.oblig(st, "panic", call, "panic reachable", False)
		return nil
	case "min", "max":
		x := ex.eval(st, call.Args[0])
		for _, a := range call.Args[1:] {
			y := ex.eval(st, a)
			if name == "min" {
				x = scalar(x.T, Ite(Le(x.term(), y.term()), x.term(), y.term()))
			} else {
				x = scalar(x.T, Ite(Ge(x.term(), y.term()), x.term(), y.term()))
			}
		}
		return []Val{x}
	case "print", "println":
		for _, a := range call.Args {
			ex.eval(st, a)
		}
		return nil
	}
	ex.unsupported(call, "builtin %s", name)
	return nil
}

// evalAppend models append faithfully: in place when capacity suffices, fresh
// backing array otherwise. The resulting inner array is a fresh symbol `res`
// specified declaratively over absolute positions:
//
//	prefix:   res[off'+j] = old[off+j]                 (j < len)
//	appended: res[off'+len+i] = new element i
//	frame:    in place, every other position of the array is unchanged
//
// with off' = off in place and 0 otherwise.
func (ex *Exec) evalAppend(st *State, call *ast.CallExpr) Val {
	s := ex.evalTyped(st, call.Args[0], ex.typeOf(call))
	rt := ex.typeOf(call)
	et := rt.Underlying().(*types.Slice).Elem()
	cs := flatten(et)
	p := sliceParts(s)
	ex.mutCount++
	var n *Term
	var elems []Val
	var srcElem func(i *Term, k int) *Term // element i of the appended sequence, component k (pre-state)
	var srcArr, srcOff *Term
	heaps := make([]*Term, len(cs))
	for k, c := range cs {
		_, heaps[k] = st.elemHeap(et, c)
	}
	if call.Ellipsis.IsValid() {
		src := ex.eval(st, call.Args[1])
		if isString(src.T) {
			n = StrLen(src.term())
			srcElem = func(i *Term, k int) *Term { return StrAt(src.term(), i) }
		} else {
			sp := sliceParts(src)
			n = sp.len
			srcArr, srcOff = sp.arr, sp.off
			srcElem = func(i *Term, k int) *Term { return Select(Select(heaps[k], sp.arr), Add(sp.off, i)) }
		}
	} else {
		for _, a := range call.Args[1:] {
			elems = append(elems, ex.evalTyped(st, a, et))
		}
		if len(elems) == 0 {
			return s
		}
		n = IntLit(int64(len(elems)))
		for k := range cs {
			_, heaps[k] = st.elemHeap(et, cs[k]) // element evaluation may have changed the heap
		}
	}
	inPlace := Le(Add(p.len, n), p.cap)
	if inPlace != True && inPlace != False {
		// split the path on this condition at the next statement boundary
		st.pendingSplits = append(st.pendingSplits, inPlace)
	}
	grow := Not(inPlace)
	newArr := st.alloc()
	newCap := Fresh("cap", SInt)
	st.assume(Ge(newCap, Add(p.len, n)))
	start := Add(p.off, p.len) // first appended absolute position when in place
	for k, c := range cs {
		nm, _ := st.elemHeap(et, c)
		h := heaps[k]
		old := Select(h, p.arr)
		// ---- in place: array inA ----
		inA := Fresh("app.in", SArr(SInt, c.Sort))
		if elems != nil {
			// appended positions hold the new elements, every other position is unchanged
			for i, e := range elems {
				st.assume(Implies(inPlace, Eq(Select(inA, Add(start, IntLit(int64(i)))), e.C[k])))
			}
			i := BVar("i", SInt)
			outside := Or(Lt(i, start), Ge(i, Add(start, n)))
			st.assume(Implies(inPlace, Forall([]*Term{i}, Implies(outside, Eq(Select(inA, i), Select(old, i))), []*Term{Select(inA, i)})))
			u := BVar("u", SInt)
			outsideU := Or(Lt(u, start), Ge(u, Add(start, n)))
			st.assume(Implies(inPlace, Forall([]*Term{u}, Implies(outsideU, Eq(Select(inA, u), Select(old, u))), []*Term{Select(old, u)})))
		} else {
			i := BVar("i", SInt)
			st.assume(Implies(inPlace, Forall([]*Term{i}, Eq(Select(inA, i), Ite(And(Le(start, i), Lt(i, Add(start, n))), srcElem(Sub(i, start), k), Select(old, i))), []*Term{Select(inA, i)})))
			u := BVar("u", SInt)
			st.assume(Implies(inPlace, Forall([]*Term{u}, Implies(Or(Lt(u, start), Ge(u, Add(start, n))), Eq(Select(inA, u), Select(old, u))), []*Term{Select(old, u)})))
			if srcArr != nil {
				m := BVar("m", SInt)
				srcSel := Select(Select(h, srcArr), m)
				st.assume(Implies(inPlace, Forall([]*Term{m}, Implies(And(Le(srcOff, m), Lt(m, Add(srcOff, n))), Eq(Select(inA, Add(start, Sub(m, srcOff))), srcSel)), []*Term{srcSel})))
			}
		}
		// ---- grown: fresh array outA at offset 0 ----
		outA := Fresh("app.out", SArr(SInt, c.Sort))
		j := BVar("j", SInt)
		st.assume(Implies(grow, Forall([]*Term{j}, Implies(And(Le(IntLit(0), j), Lt(j, p.len)), Eq(Select(outA, j), Select(old, Add(p.off, j)))), []*Term{Select(outA, j)})))
		u := BVar("u", SInt)
		st.assume(Implies(grow, Forall([]*Term{u}, Implies(And(Le(p.off, u), Lt(u, Add(p.off, p.len))), Eq(Select(outA, Sub(u, p.off)), Select(old, u))), []*Term{Select(old, u)})))
		if elems != nil {
			for i, e := range elems {
				st.assume(Implies(grow, Eq(Select(outA, Add(p.len, IntLit(int64(i)))), e.C[k])))
			}
		} else {
			j2 := BVar("j", SInt)
			st.assume(Implies(grow, Forall([]*Term{j2}, Implies(And(Le(p.len, j2), Lt(j2, Add(p.len, n))), Eq(Select(outA, j2), srcElem(Sub(j2, p.len), k))), []*Term{Select(outA, j2)})))
			if srcArr != nil {
				m := BVar("m", SInt)
				srcSel := Select(Select(h, srcArr), m)
				st.assume(Implies(grow, Forall([]*Term{m}, Implies(And(Le(srcOff, m), Lt(m, Add(srcOff, n))), Eq(Select(outA, Add(p.len, Sub(m, srcOff))), srcSel)), []*Term{srcSel})))
			}
		}
		if info, ok := heapCompInfo[nm]; ok {
			registerHeapAxiomInner(inA, info, st.ctr)
			registerHeapAxiomInner(outA, info, st.ctr)
		}
		st.heapSet(nm, Store(h, Ite(inPlace, p.arr, newArr), Ite(inPlace, inA, outA)))
	}
	return mkSlice(rt, Ite(inPlace, p.arr, newArr), Ite(inPlace, p.off, IntLit(0)), Add(p.len, n), Ite(inPlace, p.cap, newCap))
}

// ---- in-package calls ----

func (ex *Exec) callInPackage(st *State, call *ast.CallExpr, fi *FuncInfo, recv *Val, args []Val) []Val {
	// implicit contract of every method with a pointer receiver: the receiver is not nil
	// (assumed when the method is verified, asserted at every call site)
	if recv != nil {
		if _, isPtr := recv.T.Underlying().(*types.Pointer); isPtr {
			ex.oblig(st, "pre@call", call, fi.Key+":receiver-non-nil", Neq(recv.C[0], IntLit(0)))
		}
	}
	if fi.Contract != nil && !ex.inlineAlways(fi) {
		return ex.applyContract(st, call, fi.Contract, fi.Sig, fi.Key, recv, args, fi)
	}
	return ex.inline(st, call, fi, recv, args)
}

func (ex *Exec) inlineAlways(fi *FuncInfo) bool { return false }

var maxInlineDepth = 4

// sweepMode: callees without a contract are inlined only when small; otherwise summarised
// (frame havoc + typed results).
var sweepMode = false

func (ex *Exec) inline(st *State, call ast.Node, fi *FuncInfo, recv *Val, args []Val) []Val {
	for _, f := range ex.inlineStack {
		if f == fi {
			ex.unsupported(call, "recursive call to %s without contract", fi.Key)
		}
	}
	if len(ex.inlineStack) >= maxInlineDepth || (sweepMode && len(ex.inlineStack) >= 1 && !ex.smallBody(fi)) || (sweepMode && len(ex.inlineStack) == 0 && ex.curFn != nil && !ex.smallBody(fi) && fi.Lit == nil) {
		ex.note("call to " + fi.Key + " summarised: effects havocked (syntactic frame refined by the callee's inferred frame), results typed only")
		ms := ex.funcModSet(fi, 0)
		before := map[string]*Term{}
		for h, srt := range ms.heaps {
			before[h] = st.heapGet(h, srt)
		}
		ctrBefore := st.ctr
		preCall := st.clone()
		ex.havocFor(st, ms, "deep."+sanitize(fi.Key))
		var handed []Val
		if recv != nil {
			handed = append(handed, *recv)
		}
		handed = append(handed, args...)
		ex.assumeInferredFrames(st, preCall, fi, ms, before, ctrBefore, handed)
		return ex.havocResults(st, fi.Sig, "deep."+sanitize(fi.Key))
	}
	ex.prepareFunc(fi)
	saved := ex.curFn
	savedRets := ex.retStates
	ex.retStates = nil
	ex.curFn = fi
	ex.inlineStack = append(ex.inlineStack, fi)
	nb := len(st.facts)
	// bind parameters
	if r := fi.Sig.Recv(); r != nil && recv != nil {
		ex.declVar(st, r, *recv)
	}
	for i := 0; i < fi.Sig.Params().Len(); i++ {
		ex.declVar(st, fi.Sig.Params().At(i), args[i])
	}
	for i := 0; i < fi.Sig.Results().Len(); i++ {
		r := fi.Sig.Results().At(i)
		if r.Name() != "" && r.Name() != "_" {
			ex.declVar(st, r, zeroVal(r.Type()))
		}
	}
	out := ex.execBlock(st, fi.Body.List)
	rets := ex.retStates
	if fi.Sig.Results().Len() == 0 {
		for _, f := range out.falls {
			rets = append(rets, retOut{st: f, fn: fi})
		}
	}
	ex.retStates = savedRets
	ex.curFn = saved
	ex.inlineStack = ex.inlineStack[:len(ex.inlineStack)-1]
	if len(rets) == 0 {
		// callee never returns (panics on all paths): current path is dead
		st.assume(False)
		return ex.havocResults(st, fi.Sig, "noret")
	}
	// merge return states
	nres := fi.Sig.Results().Len()
	m := rets[0].st
	vals := rets[0].vals
	for _, r := range rets[1:] {
		n := nb
		if n > len(r.st.facts) {
			n = len(r.st.facts)
		}
		if n > len(m.facts) {
			n = len(m.facts)
		}
		for i := 0; i < n; i++ {
			if r.st.facts[i] != m.facts[i] {
				n = i
				break
			}
		}
		c := r.st.disc(n)
		nv := make([]Val, nres)
		for i := 0; i < nres; i++ {
			nv[i] = iteVal(c, r.vals[i], vals[i])
		}
		vals = nv
		m = mergeStates(c, r.st, m, n)
	}
	*st = *m
	return vals
}

// ---- contracts at call sites ----

func (ex *Exec) contractEnv(c *Contract, sig *types.Signature, recv *Val, args []Val) map[string]Val {
	env := map[string]Val{}
	names := c.Params
	var vals []Val
	if recv != nil {
		vals = append(vals, *recv)
	}
	vals = append(vals, args...)
	if want := sig.Params().Len() + len(vals) - len(args); len(names) != want {
		// header not parsed into one name per parameter (function-typed parameters): use the signature
		names = nil
	}
	if len(names) == 0 {
		// take names from the signature
		if r := sig.Recv(); r != nil && recv != nil {
			names = append(names, r.Name())
		}
		for i := 0; i < sig.Params().Len(); i++ {
			names = append(names, sig.Params().At(i).Name())
		}
	}
	for i, n := range names {
		if i < len(vals) && n != "" && n != "_" {
			env[n] = vals[i]
		}
	}
	return env
}

func (ex *Exec) resultNames(c *Contract, sig *types.Signature) []string {
	if len(c.Results) > 0 {
		return c.Results
	}
	var out []string
	for i := 0; i < sig.Results().Len(); i++ {
		n := sig.Results().At(i).Name()
		if n == "" || n == "_" {
			if sig.Results().Len() == 1 {
				n = "result"
			} else {
				n = fmt.Sprintf("result%d", i)
			}
		}
		out = append(out, n)
	}
	return out
}

func (ex *Exec) applyContract(st *State, call ast.Node, c *Contract, sig *types.Signature, key string, recv *Val, args []Val, fi *FuncInfo) []Val {
	ex.callSeq++
	seq := ex.callSeq
	if fi != nil {
		if c.Opts["trusted"] != "" {
			ex.note("TRUSTED contract of " + key + " (" + c.Opts["trusted"] + "): its body is not verified against it")
		} else {
			ex.note("relies on the contract of " + key + " (discharged under its own obligations)")
		}
	}
	env := ex.contractEnv(c, sig, recv, args)
	pre := st.clone()
	ghosts := map[string]*GhostInst{}
	for k, g := range ex.ghosts {
		ghosts[k] = g
	}
	mk := func(s, old *State) *SpecCtx {
		return &SpecCtx{ex: ex, st: s, old: old, env: env, ghosts: ghosts}
	}
	// ghost functions of the callee, instantiated on the pre-call state
	ex.instantiateGhostFuns(st, c, mk(pre, pre), ghosts, fmt.Sprintf("%s.c%d", sanitize(key), seq), false)
	// requires labelled [fn...] are needed only for the functional ensures: they are not demanded
	// at call sites; the ensures are then assumed under them
	fnGuard := True
	for i, r := range c.Requires {
		t := ex.evalSpecBoolAt(mk(st, pre), r.E, key+" requires")
		if isFnLabel(r.Label) {
			fnGuard = And(fnGuard, t)
			continue
		}
		ex.oblig(st, "pre@call", call, fmt.Sprintf("%s:%s", key, clauseLabel(r, i, "req")), t)
	}
	// havoc the frame
	targets := ex.assignsTargets(mk(pre, pre), c, sig)
	nc := Fresh(fmt.Sprintf("ctr.c%d", seq), SInt)
	st.assume(Ge(nc, st.ctr))
	st.ctr = nc
	ex.havocTargets(st, pre, targets, fmt.Sprintf("c%d", seq))
	if fi != nil && !c.HasAssign && c.Opts["trusted"] == "" {
		// a contract without an assigns clause says nothing about the callee's writes: everything it
		// can write syntactically is havocked, refined by the frame inferred from its body
		ms := ex.funcModSet(fi, 0)
		before := map[string]*Term{}
		for h, srt := range ms.heaps {
			before[h] = st.heapGet(h, srt)
		}
		ctrBefore := pre.ctr
		saveVars := ms.vars
		ms.vars = map[*types.Var]bool{}
		ex.havocFor(st, ms, fmt.Sprintf("cf%d", seq))
		ms.vars = saveVars
		if why := c.Opts["frame-assumed"]; why != "" {
			// ASSUMED frame (listed in the evidence): pre-existing locations are unchanged
			ex.assumedExt["frame of "+key+" at its call sites: "+why] = true
			for _, h := range ms.heapNames() {
				cur := st.heapGet(h, ms.heaps[h])
				if cur == before[h] || before[h] == nil {
					continue
				}
				r := BVar("r", SInt)
				st.assume(Forall([]*Term{r}, Implies(Lt(r, ctrBefore), Eq(Select(cur, r), Select(before[h], r))), []*Term{Select(cur, r)}))
			}
		} else {
			var handed []Val
			if recv != nil {
				handed = append(handed, *recv)
			}
			handed = append(handed, args...)
			ex.assumeInferredFrames(st, pre, fi, ms, before, ctrBefore, handed)
		}
	}
	// results
	var results []Val
	rn := ex.resultNames(c, sig)
	for i := 0; i < sig.Results().Len(); i++ {
		v := freshVal(fmt.Sprintf("%s.r%d", sanitize(key), i), sig.Results().At(i).Type())
		st.assumeAll(typeFacts(v))
		st.assumeAll(ex.allocFacts(st, v))
		results = append(results, v)
		if i < len(rn) {
			env[rn[i]] = v
		}
	}
	// ghost outs
	inst := map[string]*GhostInst{}
	for _, g := range c.GhostOuts {
		gi := ex.declareGhost(mk(st, pre), g, fmt.Sprintf("%s.c%d.%s", sanitize(key), seq, g.Name))
		ghosts[g.Name] = gi
		inst[g.Name] = gi
	}
	ex.lastGhost[key] = inst
	short := key
	if i := strings.LastIndex(short, "."); i >= 0 {
		short = short[i+1:]
	}
	for gname, gi := range inst {
		st.setCallGhost(key+"$"+gname, gi)
		st.setCallGhost(short+"$"+gname, gi)
	}
	for _, e := range c.Ensures {
		t := ex.evalSpecBoolAt(mk(st, pre), e.E, key+" ensures")
		st.assume(Implies(fnGuard, t))
	}
	ex.mutCount++
	return results
}

func clauseLabel(c *Clause, i int, p string) string {
	if c.Label != "" {
		return c.Label
	}
	return fmt.Sprintf("%s%d", p, i+1)
}

func (ex *Exec) evalSpecBoolAt(c *SpecCtx, e *SExpr, what string) (t *Term) {
	defer func() {
		if r := recover(); r != nil {
			if sf, ok := r.(specFail); ok {
				panic(undecided{fmt.Sprintf("contract error in %s: %s", what, string(sf))})
			}
			panic(r)
		}
	}()
	return c.evalBool(e)
}

// ---- frames ----

type frameTarget struct {
	heap  string
	sort  Sort
	whole bool
	at    *Term // index (ref / array id / map ref) when not whole
}

func (ex *Exec) namedStruct(name string) types.Type {
	if o, ok := ex.P.Pkg.Types.Scope().Lookup(name).(*types.TypeName); ok {
		if _, ok := o.Type().Underlying().(*types.Struct); ok {
			return o.Type()
		}
	}
	return nil
}

func (ex *Exec) assignsTargets(c *SpecCtx, con *Contract, sig *types.Signature) []frameTarget {
	var out []frameTarget
	for _, a := range con.Assigns {
		out = append(out, ex.assignTarget(c, a)...)
	}
	return out
}

func (ex *Exec) assignTarget(c *SpecCtx, a *SExpr) (out []frameTarget) {
	defer func() {
		if r := recover(); r != nil {
			if sf, ok := r.(specFail); ok {
				panic(undecided{fmt.Sprintf("contract error in assigns %s: %s", a, string(sf))})
			}
			panic(r)
		}
	}()
	switch a.Op {
	case "sel":
		if a.Args[0].Op == "id" {
			if t := ex.namedStruct(a.Args[0].Tok); t != nil {
				if _, shadow := c.env[a.Args[0].Tok]; !shadow {
					f := findField(t, a.Tok)
					if f == nil {
						c.fail("no field %s.%s", a.Args[0].Tok, a.Tok)
					}
					for _, cp := range flatten(f.Type()) {
						name := fieldHeapName(t, a.Tok, cp)
						markRefHolding(name, cp, false)
						out = append(out, frameTarget{heap: name, sort: SArr(SInt, cp.Sort), whole: true})
					}
					return
				}
			}
		}
		x := c.eval(a.Args[0])
		p, ok := x.T.Underlying().(*types.Pointer)
		if !ok {
			c.fail("assigns target %s: base is not a pointer", a)
		}
		f := findField(p.Elem(), a.Tok)
		if f == nil {
			c.fail("no field %s", a.Tok)
		}
		for _, cp := range flatten(f.Type()) {
			name := fieldHeapName(p.Elem(), a.Tok, cp)
			markRefHolding(name, cp, false)
			out = append(out, frameTarget{heap: name, sort: SArr(SInt, cp.Sort), at: x.C[0]})
		}
		return
	case "call":
		fn := a.Args[0]
		if fn.Op == "id" {
			switch fn.Tok {
			case "elems": // backing array of a slice value
				x := c.eval(a.Args[1])
				et := elemType(x.T)
				for _, cp := range flatten(et) {
					name := elemHeapName(et, cp)
					markRefHolding(name, cp, true)
					out = append(out, frameTarget{heap: name, sort: SArr(SInt, SArr(SInt, cp.Sort)), at: x.C[0]})
				}
				return
			case "elemsof": // all backing arrays of an element type
				et := c.resolveType(typeArg(a.Args[1]))
				for _, cp := range flatten(et) {
					name := elemHeapName(et, cp)
					markRefHolding(name, cp, true)
					out = append(out, frameTarget{heap: name, sort: SArr(SInt, SArr(SInt, cp.Sort)), whole: true})
				}
				return
			case "elemfield": // elemfield(T, Field): component(s) Field of all backing arrays of element type T
				et := c.resolveType(typeArg(a.Args[1]))
				fname := a.Args[2].Tok
				n := 0
				for _, cp := range flatten(et) {
					if cp.Path == "."+fname || strings.HasPrefix(cp.Path, "."+fname+"$") || strings.HasPrefix(cp.Path, "."+fname+".") {
						name := elemHeapName(et, cp)
						markRefHolding(name, cp, true)
						out = append(out, frameTarget{heap: name, sort: SArr(SInt, SArr(SInt, cp.Sort)), whole: true})
						n++
					}
				}
				if n == 0 {
					c.fail("elemfield: no field %s", fname)
				}
				return
			case "entries": // entries of one map
				x := c.eval(a.Args[1])
				mt := x.T
				ks := mapKeySort(mt)
				out = append(out, frameTarget{heap: mapHeapBase(mt) + "$dom", sort: SArr(SInt, SArr(ks, SBool)), at: x.C[0]})
				for _, cp := range flatten(mt.Underlying().(*types.Map).Elem()) {
					name := mapHeapBase(mt) + "$val" + cp.Path
					markRefHolding(name, cp, true)
					out = append(out, frameTarget{heap: name, sort: SArr(SInt, SArr(ks, cp.Sort)), at: x.C[0]})
				}
				return
			case "boxes":
				t := c.resolveType(typeArg(a.Args[1]))
				for _, cp := range flatten(t) {
					name := "B$" + typeKey(t) + cp.Path
					markRefHolding(name, cp, false)
					out = append(out, frameTarget{heap: name, sort: SArr(SInt, cp.Sort), whole: true})
				}
				return
			case "ghost":
				name := a.Args[1].Tok
				s := ex.P.GhostFlds[name]
				out = append(out, frameTarget{heap: "G$" + name, sort: SArr(SInt, s), whole: true})
				return
			}
		}
	}
	c.fail("unsupported assigns target %s", a)
	return nil
}

func typeArg(e *SExpr) string {
	switch e.Op {
	case "id":
		return e.Tok
	case "sel":
		return typeArg(e.Args[0]) + "." + e.Tok
	case "un":
		return e.Tok + typeArg(e.Args[0])
	case "str":
		return e.Tok
	}
	return e.String()
}

// assignsHeapNames: static (type-level) version used for modified sets.
func (ex *Exec) assignsHeapNames(a *SExpr, callee *types.Func) map[string]Sort {
	out := map[string]Sort{}
	defer func() {
		if r := recover(); r != nil {
			if _, ok := r.(specFail); ok {
				return
			}
			panic(r)
		}
	}()
	c := &SpecCtx{ex: ex, st: newState(), env: map[string]Val{}, ghosts: map[string]*GhostInst{}}
	c.st.ctr = IntLit(1)
	c.old = c.st
	// bind parameters to dummy values of their static types
	if callee != nil {
		sig := callee.Type().(*types.Signature)
		names := []string{}
		var tys []types.Type
		if r := sig.Recv(); r != nil {
			names = append(names, r.Name())
			tys = append(tys, r.Type())
		}
		for i := 0; i < sig.Params().Len(); i++ {
			names = append(names, sig.Params().At(i).Name())
			tys = append(tys, sig.Params().At(i).Type())
		}
		var con *Contract
		if fi, ok := ex.P.FuncByObj[callee]; ok {
			con = fi.Contract
		} else {
			con = ex.externContract(callee)
		}
		if con != nil && len(con.Params) == len(names) {
			names = con.Params
		}
		for i, n := range names {
			if n != "" && n != "_" {
				c.env[n] = freshVal("dummy", tys[i])
			}
		}
	}
	for _, t := range ex.assignTarget(c, a) {
		out[t.heap] = t.sort
	}
	return out
}

// havocTargets replaces the targeted heap arrays by fresh ones that agree with
// the old ones outside the target locations.
func (ex *Exec) havocTargets(st *State, pre *State, targets []frameTarget, tag string) {
	byHeap := map[string][]frameTarget{}
	var order []string
	for _, t := range targets {
		if _, ok := byHeap[t.heap]; !ok {
			order = append(order, t.heap)
		}
		byHeap[t.heap] = append(byHeap[t.heap], t)
	}
	sort.Strings(order)
	for _, h := range order {
		ts := byHeap[h]
		old := st.heapGet(h, ts[0].sort)
		sym := Fresh(h+"."+tag, ts[0].sort)
		heapSorts[h] = ts[0].sort
		registerHeapAxiom(sym, h, st.ctr)
		whole := false
		for _, t := range ts {
			if t.whole {
				whole = true
			}
		}
		if !whole {
			r := BVar("r", SInt)
			var ne []*Term
			for _, t := range ts {
				ne = append(ne, Neq(r, t.at))
			}
			st.assume(Forall([]*Term{r}, Implies(And(ne...), Eq(Select(sym, r), Select(old, r))), []*Term{Select(sym, r)}))
		} else {
			// freshly allocated locations aside, nothing is known
		}
		st.heap[h] = sym
	}
}

// ---- externs ----

func (ex *Exec) callExtern(st *State, call *ast.CallExpr, callee *types.Func, recv *Val, args []Val) []Val {
	key := externKey(callee)
	sig := callee.Type().(*types.Signature)
	if sweepMode && callee.FullName() == "time.Now" && ex.probeDepth == 0 && !ex.frameProbe {
		// C19: the wall clock may be read only through the package variable Now (injectable)
		ex.obligNoAssume(st, "clock", call, "direct call of time.Now", False)
	}
	if vs, ok := ex.specialExtern(st, call, key, callee, recv, args); ok {
		return vs
	}
	if c := ex.P.Externs[key]; c != nil {
		ex.assumedExt[key] = true
		rs := ex.applyContract(st, call, c, sig, key, recv, args, nil)
		if externClass(callee) == "deserialiser" {
			ms := newModSet()
			ex.modExternDefault(ms, callee, call)
			ms.vars = map[*types.Var]bool{}
			ex.havocFor(st, ms, "deser."+sanitize(key))
		}
		return rs
	}
	cls := externClass(callee)
	switch cls {
	case "pure":
		ex.assumedExt[key+" (default: total, does not write through its arguments, typed result)"] = true
	case "bytewriter":
		ex.assumedExt[key+" (default: total, writes only the elements of its slice arguments)"] = true
	case "deserialiser":
		ex.assumedExt[key+" (default: total, may write everything reachable by type from its arguments)"] = true
	default:
		ex.assumedExt[key+" (default: total, may write slice arguments' elements and everything reachable by type from pointer arguments)"] = true
	}
	if cls != "pure" {
		ms := newModSet()
		ex.modExternDefault(ms, callee, call)
		ms.vars = map[*types.Var]bool{}
		ex.havocFor(st, ms, "ext."+sanitize(key))
	}
	vs := ex.havocResults(st, sig, sanitize(key))
	// documented error-returning constructors
	return vs
}

func (ex *Exec) callInterface(st *State, call *ast.CallExpr, s *types.Selection, recv Val, args []Val) []Val {
	impls := ex.implementations(s.Recv(), s.Obj().Name())
	sig := s.Obj().Type().(*types.Signature)
	ex.oblig(st, "nil-deref", call, ex.exprStr(call.Fun), Neq(recv.C[0], IntLit(0)))
	// every in-package implementation's precondition holds when the dynamic type selects it
	// (closed world: the interface and all implementations are unexported)
	for _, fi := range impls {
		if fi.Sig.Recv() == nil {
			continue
		}
		rt := fi.Sig.Recv().Type()
		s2 := st.clone()
		s2.assume(Eq(recv.C[0], typeTag(rt)))
		cv := ex.fromIface(s2, recv, rt)
		if _, isPtr := rt.Underlying().(*types.Pointer); isPtr {
			ex.oblig(s2, "pre@call", call, fi.Key+":receiver-non-nil", Neq(cv.C[0], IntLit(0)))
		}
		if c := fi.Contract; c != nil {
			env := ex.contractEnv(c, fi.Sig, &cv, args)
			ctx := &SpecCtx{ex: ex, st: s2, old: s2, env: env, ghosts: ex.ghosts}
			for i, r := range c.Requires {
				if isFnLabel(r.Label) {
					continue
				}
				t := ex.evalSpecBoolAt(ctx, r.E, fi.Key+" requires")
				ex.oblig(s2, "pre@call", call, fmt.Sprintf("%s:%s", fi.Key, clauseLabel(r, i, "req")), t)
			}
		}
	}
	ms := newModSet()
	for _, fi := range impls {
		ms.addAll(ex.funcModSet(fi, 0))
	}
	ms.vars = map[*types.Var]bool{}
	var names []string
	for _, fi := range impls {
		names = append(names, fi.Key)
	}
	ex.note("interface call " + ex.exprStr(call.Fun) + " over-approximated by the union of the effects of " + strings.Join(names, ","))
	before := map[string]*Term{}
	for h, srt := range ms.heaps {
		before[h] = st.heapGet(h, srt)
	}
	ctrBefore := st.ctr
	preIf := st.clone()
	ex.havocFor(st, ms, "if."+sanitize(s.Obj().Name()))
	// heaps whose pre-existing locations every implementation provably preserves (inferred frames),
	// possibly except at the objects handed in (receiver, arguments)
	refs := handedRefs(append([]Val{recv}, args...))
	for _, fi := range impls {
		// one level below the concrete receiver (see handedRefsDeep)
		if fi.Sig.Recv() != nil {
			if _, isPtr := fi.Sig.Recv().Type().Underlying().(*types.Pointer); isPtr {
				refs = append(refs, handedRefsDeep(preIf, []Val{scalar(fi.Sig.Recv().Type(), recv.C[1])})...)
			}
		}
	}
	refs = append(refs, handedRefsDeep(preIf, args)...)
	for _, h := range ms.heapNames() {
		kind := frameFull
		for _, fi := range impls {
			if _, touches := ex.funcModSet(fi, 0).heaps[h]; !touches {
				continue
			}
			k := ex.inferredFrames(fi)[h]
			if k == frameNone {
				kind = frameNone
				break
			}
			if k == frameParams {
				kind = frameParams
			}
		}
		if kind == frameNone {
			continue
		}
		cur := st.heapGet(h, ms.heaps[h])
		if cur == before[h] {
			continue
		}
		r := BVar("r", SInt)
		cond := []*Term{Lt(r, ctrBefore)}
		if kind == frameParams {
			for _, p := range exclusionsFor(h, refs) {
				cond = append(cond, Neq(r, p))
			}
		}
		st.assume(Forall([]*Term{r}, Implies(And(cond...), Eq(Select(cur, r), Select(before[h], r))), []*Term{Select(cur, r)}))
	}
	return ex.havocResults(st, sig, "if."+sanitize(s.Obj().Name()))
}

func (ex *Exec) firstArgType(call *ast.CallExpr) types.Type {
	if len(call.Args) == 0 {
		return nil
	}
	return ex.typeOf(call.Args[0])
}

// smallBody: few statements, no loops (cheap and precise to inline).
func (ex *Exec) smallBody(fi *FuncInfo) bool {
	n := 0
	loops := false
	ast.Inspect(fi.Body, func(nd ast.Node) bool {
		switch nd.(type) {
		case ast.Stmt:
			n++
		}
		switch nd.(type) {
		case *ast.ForStmt, *ast.RangeStmt:
			loops = true
		}
		return true
	})
	return n <= 14 && !loops
}

func isFnLabel(l string) bool { return l == "fn" || strings.HasPrefix(l, "fn-") }
