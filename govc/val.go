package main

// Values: every Go type flattens into a list of SMT components.

import (
	"fmt"
	"go/types"
	"regexp"
	"strings"
)

type CompKind int

const (
	CInt CompKind = iota
	CBool
	CReal
	CStr
	CRef    // pointer (0 = nil); Target set
	CArrID  // slice backing array id
	CSliceI // slice off/len/cap
	CMap    // map reference
	CIfTag  // interface dynamic type tag (0 = nil interface)
	CIfVal  // interface payload
	COpaque // opaque value (function, channel, foreign struct)
	CArray  // Go array component (Array Int tau)
)

type Comp struct {
	Path string
	Sort Sort
	Kind CompKind
	T    types.Type // Go type of the leaf (when meaningful)
}

var flatMemo = map[string][]Comp{}

var reByteAlias = regexp.MustCompile(`\bbyte\b`)
var reRuneAlias = regexp.MustCompile(`\brune\b`)

// typeKey is the canonical name of a type in heap names (byte = uint8, rune = int32).
func typeKey(t types.Type) string {
	s := types.TypeString(t, func(p *types.Package) string {
		if p.Path() == "github.com/asticode/go-astisub" {
			return ""
		}
		return p.Name()
	})
	s = reByteAlias.ReplaceAllString(s, "uint8")
	s = reRuneAlias.ReplaceAllString(s, "int32")
	return sanitize(s)
}

func flatten(t types.Type) []Comp {
	k := types.TypeString(t, nil)
	if c, ok := flatMemo[k]; ok {
		return c
	}
	c := flatten0(t, 0)
	flatMemo[k] = c
	return c
}

func flatten0(t types.Type, depth int) []Comp {
	if depth > 6 {
		return []Comp{{"", SInt, COpaque, t}}
	}
	switch u := t.Underlying().(type) {
	case *types.Basic:
		switch {
		case u.Info()&types.IsBoolean != 0:
			return []Comp{{"", SBool, CBool, t}}
		case u.Info()&types.IsInteger != 0:
			return []Comp{{"", SInt, CInt, t}}
		case u.Info()&types.IsFloat != 0:
			return []Comp{{"", SReal, CReal, t}}
		case u.Info()&types.IsString != 0:
			return []Comp{{"", SStr, CStr, t}}
		case u.Kind() == types.UntypedNil:
			return []Comp{{"", SInt, CRef, t}}
		case u.Kind() == types.UnsafePointer:
			return []Comp{{"", SInt, COpaque, t}}
		}
		return []Comp{{"", SInt, COpaque, t}}
	case *types.Pointer:
		return []Comp{{"", SInt, CRef, t}}
	case *types.Slice:
		return []Comp{{"$arr", SInt, CArrID, t}, {"$off", SInt, CSliceI, t}, {"$len", SInt, CSliceI, t}, {"$cap", SInt, CSliceI, t}}
	case *types.Map:
		return []Comp{{"", SInt, CMap, t}}
	case *types.Interface:
		return []Comp{{"$tag", SInt, CIfTag, t}, {"$val", SInt, CIfVal, t}}
	case *types.Signature, *types.Chan:
		return []Comp{{"", SInt, COpaque, t}}
	case *types.Struct:
		if isOpaqueStruct(t) {
			return []Comp{{"", SInt, COpaque, t}}
		}
		var out []Comp
		for i := 0; i < u.NumFields(); i++ {
			f := u.Field(i)
			for _, c := range flatten0(f.Type(), depth+1) {
				out = append(out, Comp{"." + f.Name() + c.Path, c.Sort, c.Kind, c.T})
			}
		}
		if len(out) == 0 {
			out = []Comp{{"", SInt, COpaque, t}}
		}
		return out
	case *types.Array:
		var out []Comp
		for _, c := range flatten0(u.Elem(), depth+1) {
			out = append(out, Comp{"[]" + c.Path, SArr(SInt, c.Sort), CArray, c.T})
		}
		return out
	case *types.Tuple:
		var out []Comp
		for i := 0; i < u.Len(); i++ {
			for _, c := range flatten0(u.At(i).Type(), depth+1) {
				out = append(out, Comp{fmt.Sprintf("#%d%s", i, c.Path), c.Sort, c.Kind, c.T})
			}
		}
		return out
	}
	return []Comp{{"", SInt, COpaque, t}}
}

// Foreign structs with unexported fields are opaque (time.Time, regexp.Regexp, ...).
func isOpaqueStruct(t types.Type) bool {
	n, ok := t.(*types.Named)
	if !ok {
		if a, ok2 := t.(*types.Alias); ok2 {
			return isOpaqueStruct(types.Unalias(a))
		}
		return false
	}
	if n.Obj().Pkg() == nil || n.Obj().Pkg().Path() == "github.com/asticode/go-astisub" {
		return false
	}
	st, ok := n.Underlying().(*types.Struct)
	if !ok {
		return false
	}
	for i := 0; i < st.NumFields(); i++ {
		if !st.Field(i).Exported() {
			return true
		}
	}
	return false
}

// Val is a typed tuple of component terms.
type Val struct {
	T   types.Type
	C   []*Term
	Aux interface{} // static information (closure, known method, ...)
}

func (v Val) String() string {
	var ss []string
	for _, c := range v.C {
		ss = append(ss, c.String())
	}
	return fmt.Sprintf("<%v: %s>", v.T, strings.Join(ss, ", "))
}

func scalar(t types.Type, x *Term) Val { return Val{T: t, C: []*Term{x}} }

var (
	tInt    = types.Typ[types.Int]
	tBool   = types.Typ[types.Bool]
	tString = types.Typ[types.String]
	tFloat  = types.Typ[types.Float64]
	tByte   = types.Typ[types.Uint8]
)

func intVal(x *Term) Val  { return scalar(tInt, x) }
func boolVal(x *Term) Val { return scalar(tBool, x) }

func (v Val) term() *Term {
	if len(v.C) != 1 {
		panic(fmt.Sprintf("term() on multi-component value %v", v))
	}
	return v.C[0]
}

// freshVal makes an unconstrained value of type t.
func freshVal(prefix string, t types.Type) Val {
	cs := flatten(t)
	v := Val{T: t, C: make([]*Term, len(cs))}
	for i, c := range cs {
		v.C[i] = Fresh(prefix+c.Path, c.Sort)
	}
	return v
}

// zeroVal is the Go zero value of t.
func zeroVal(t types.Type) Val {
	cs := flatten(t)
	v := Val{T: t, C: make([]*Term, len(cs))}
	for i, c := range cs {
		v.C[i] = zeroOfSort(c.Sort)
	}
	return v
}

func zeroOfSort(s Sort) *Term {
	switch s {
	case SInt:
		return IntLit(0)
	case SBool:
		return False
	case SReal:
		return RealLit("0.0")
	case SStr:
		return strEmpty()
	}
	if strings.HasPrefix(string(s), "(Array ") {
		idx, el := arrParts(s)
		if strings.Contains(string(s), "Str") {
			// cvc5 accepts only values under (as const ...): use a named zero array with an axiom
			z := Sym("zero$"+sanitize(string(s)), s)
			i := BVar("i", idx)
			addAxiomFor(z.op, Forall([]*Term{i}, Eq(Select(z, i), zeroOfSort(el)), []*Term{Select(z, i)}))
			return z
		}
		return App("(as const "+string(s)+")", s, zeroOfSort(el))
	}
	panic("zeroOfSort " + string(s))
}

func iteVal(c *Term, a, b Val) Val {
	if len(a.C) != len(b.C) {
		panic(fmt.Sprintf("iteVal arity mismatch %v / %v", a, b))
	}
	out := Val{T: a.T, C: make([]*Term, len(a.C))}
	for i := range a.C {
		if a.C[i].sort == SStr {
			out.C[i] = mergeStr(c, a.C[i], b.C[i])
		} else {
			out.C[i] = Ite(c, a.C[i], b.C[i])
		}
	}
	if a.Aux == b.Aux {
		out.Aux = a.Aux
	}
	return out
}

// type facts for a value (ranges of machine integers, slice header sanity).
func typeFacts(v Val) []*Term {
	var out []*Term
	cs := flatten(v.T)
	if len(cs) != len(v.C) {
		return nil
	}
	for i, c := range cs {
		switch c.Kind {
		case CInt:
			if lo, hi, ok := intRange(c.T); ok {
				out = append(out, Le(lo, v.C[i]), Le(v.C[i], hi))
			}
		case CSliceI:
			out = append(out, Ge(v.C[i], IntLit(0)))
			if strings.HasSuffix(c.Path, "$cap") {
				out = append(out, Le(v.C[i-1], v.C[i]))
				// nil slice has no capacity
				out = append(out, Implies(Eq(v.C[i-3], IntLit(0)), Eq(v.C[i], IntLit(0))))
			}
		case CArrID, CRef, CMap:
			out = append(out, Ge(v.C[i], IntLit(0)))
		case CIfVal:
			// a nil interface value has no payload
			if i > 0 && cs[i-1].Kind == CIfTag {
				out = append(out, Implies(Eq(v.C[i-1], IntLit(0)), Eq(v.C[i], IntLit(0))))
			}
		}
	}
	return out
}

func intRange(t types.Type) (*Term, *Term, bool) {
	b, ok := t.Underlying().(*types.Basic)
	if !ok {
		return nil, nil, false
	}
	switch b.Kind() {
	case types.Uint8:
		return IntLit(0), IntLit(255), true
	case types.Uint16:
		return IntLit(0), IntLit(65535), true
	case types.Uint32:
		return IntLit(0), IntLit(4294967295), true
	case types.Int8:
		return IntLit(-128), IntLit(127), true
	case types.Int16:
		return IntLit(-32768), IntLit(32767), true
	case types.Int32:
		return IntLit(-2147483648), IntLit(2147483647), true
	case types.Uint, types.Uint64, types.Uintptr:
		return IntLit(0), pow2(64, -1), true
	case types.Int, types.Int64:
		return Neg(pow2(63, 0)), pow2(63, -1), true
	}
	return nil, nil, false
}

// ---- strings (uninterpreted sort with a concat rope) ----

func strEmpty() *Term { return Sym("str$empty", SStr) }

var strLits = map[string]*Term{}
var strLitVal = map[string]string{}

func StrLit(s string) *Term {
	if s == "" {
		return strEmpty()
	}
	if t, ok := strLits[s]; ok {
		return t
	}
	t := Sym(fmt.Sprintf("str$lit%d", len(strLits)+1), SStr)
	strLits[s] = t
	strLitVal[t.op] = s
	return t
}

func flattenCat(t *Term, out []*Term) []*Term {
	if t.op == "cat2" && t.kind == 0 && len(t.args) == 2 {
		out = flattenCat(t.args[0], out)
		return flattenCat(t.args[1], out)
	}
	if t == strEmpty() {
		return out
	}
	return append(out, t)
}

func catList(xs []*Term) *Term {
	if len(xs) == 0 {
		return strEmpty()
	}
	DeclareFun("cat2", []Sort{SStr, SStr}, SStr)
	DeclareFun("strlen", []Sort{SStr}, SInt)
	r := xs[0]
	for _, x := range xs[1:] {
		r = App("cat2", SStr, r, x)
	}
	return r
}

func Cat(a, b *Term) *Term {
	return catList(flattenCat(b, flattenCat(a, nil)))
}

func mergeStr(c, a, b *Term) *Term {
	if a == b {
		return a
	}
	fa, fb := flattenCat(a, nil), flattenCat(b, nil)
	n := 0
	for n < len(fa) && n < len(fb) && fa[n] == fb[n] {
		n++
	}
	if n == 0 {
		return Ite(c, a, b)
	}
	suf := Ite(c, catList(fa[n:]), catList(fb[n:]))
	return catList(append(append([]*Term{}, fa[:n]...), suf))
}

func StrLen(s *Term) *Term {
	DeclareFun("strlen", []Sort{SStr}, SInt)
	if s == strEmpty() {
		return IntLit(0)
	}
	if v, ok := strLitVal[s.op]; ok {
		return IntLit(int64(len(v)))
	}
	fl := flattenCat(s, nil)
	if len(fl) > 1 {
		r := IntLit(0)
		for _, x := range fl {
			r = Add(r, StrLen(x))
		}
		return r
	}
	if s.op == "ite" && s.kind == 0 {
		return Ite(s.args[0], StrLen(s.args[1]), StrLen(s.args[2]))
	}
	return App("strlen", SInt, s)
}

func StrAt(s, i *Term) *Term {
	DeclareFun("strat", []Sort{SStr, SInt}, SInt)
	if v, ok := strLitVal[s.op]; ok {
		if n, ok := i.isIntLit(); ok && n.IsInt64() && n.Int64() >= 0 && int(n.Int64()) < len(v) {
			return IntLit(int64(v[n.Int64()]))
		}
	}
	return App("strat", SInt, s, i)
}

func pow2(n int, plus int64) *Term {
	x := IntLit(1)
	b, _ := x.isIntLit()
	b.Lsh(b, uint(n))
	if plus != 0 {
		b.Add(b, bigInt(plus))
	}
	return BigLit(b)
}
