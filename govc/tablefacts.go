package main

// Facts about package-level constants tables (evaluated from the real
// initialisers; see tablefacts generation in check.go).

func builtinTableFacts() map[string]func(v Val) []*Term {
	return map[string]func(v Val) []*Term{}
}
