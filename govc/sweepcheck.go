package main

// Properties decided on the package-wide sweep (C08, C18, C19, C20): the sweep is run once per
// tree state (sweeprun.go) and every property selects its functions and obligations from it.

import (
	"go/ast"
	"go/types"
	"sort"
	"strings"
)

type SweepCfg struct {
	// Funcs selects the functions whose obligations belong to the property.
	Funcs func(p *Program) []string
	// Select filters the obligations of a selected function (nil: all).
	Select func(o *Obligation) bool
	// SelectP: like Select, with the program (overrides Select when set)
	SelectP func(p *Program, o *Obligation) bool
	// Unclaimed: obligations (name without the #n ordinal) the machinery cannot decide, with the reason.
	Unclaimed map[string]string
	// Parts: which halves of the sweep the property reads: "top" (the entry points and the other
	// functions tagged C18: the long ones) and "rest". The quick commands of C08 and C18 each pay
	// for one half, so that each stays within a per-command time budget; C19 and C20 read both.
	Parts []string
}

// entryPoints: the six readers, the five writers and the file-level helpers.
func entryPoints(p *Program) []string {
	var out []string
	for _, k := range p.sortedFuncKeys() {
		fi := p.Funcs[k]
		if fi.Lit != nil {
			continue
		}
		name := k
		if i := strings.LastIndex(k, "."); i >= 0 {
			name = k[i+1:]
		}
		if strings.HasPrefix(name, "ReadFrom") || strings.HasPrefix(name, "WriteTo") || k == "Open" || k == "OpenFile" || k == "Subtitles.Write" {
			if ast.IsExported(name) {
				out = append(out, k)
			}
		}
	}
	return out
}

// callTree: the functions reachable from the entries through static calls, method values,
// function references and interface calls (all in-package implementations).
func callTree(p *Program, entries []string) []string {
	ex := newExec(p, nil)
	seen := map[string]bool{}
	var work []string
	add := func(k string) {
		if _, ok := p.Funcs[k]; ok && !seen[k] {
			seen[k] = true
			work = append(work, k)
		}
	}
	for _, e := range entries {
		add(e)
	}
	for len(work) > 0 {
		k := work[len(work)-1]
		work = work[:len(work)-1]
		fi := p.Funcs[k]
		if fi.Body == nil {
			continue
		}
		ast.Inspect(fi.Body, func(n ast.Node) bool {
			switch x := n.(type) {
			case *ast.Ident:
				if f, ok := p.Info.Uses[x].(*types.Func); ok {
					if c, ok := p.FuncByObj[f]; ok {
						add(c.Key)
					}
				}
			case *ast.SelectorExpr:
				if s, ok := p.Info.Selections[x]; ok && (s.Kind() == types.MethodVal || s.Kind() == types.MethodExpr) {
					if isIface(s.Recv()) {
						for _, c := range ex.implementations(s.Recv(), s.Obj().Name()) {
							add(c.Key)
						}
					} else if f, ok := s.Obj().(*types.Func); ok {
						if c, ok := p.FuncByObj[f]; ok {
							add(c.Key)
						}
					}
				}
			case *ast.CompositeLit, *ast.CallExpr:
				// methods reached through library callbacks (xml.Unmarshaler, encoding.TextUnmarshaler, fmt.Stringer):
				// every method of a package type that is constructed or converted in the tree
			}
			return true
		})
	}
	// library callbacks: UnmarshalXML / UnmarshalText / MarshalText / String / Token methods of package types
	for _, k := range p.sortedFuncKeys() {
		name := k
		if i := strings.LastIndex(k, "."); i >= 0 {
			name = k[i+1:]
		}
		switch name {
		case "UnmarshalXML", "UnmarshalText", "MarshalText", "MarshalXML", "Token":
			if !seen[k] {
				seen[k] = true
				work = append(work, k)
			}
		}
	}
	for len(work) > 0 {
		k := work[len(work)-1]
		work = work[:len(work)-1]
		fi := p.Funcs[k]
		if fi.Body == nil {
			continue
		}
		ast.Inspect(fi.Body, func(n ast.Node) bool {
			if x, ok := n.(*ast.Ident); ok {
				if f, ok := p.Info.Uses[x].(*types.Func); ok {
					if c, ok := p.FuncByObj[f]; ok && !seen[c.Key] {
						seen[c.Key] = true
						work = append(work, c.Key)
					}
				}
			}
			if x, ok := n.(*ast.SelectorExpr); ok {
				if s, ok := p.Info.Selections[x]; ok && s.Kind() == types.MethodVal && !isIface(s.Recv()) {
					if f, ok := s.Obj().(*types.Func); ok {
						if c, ok := p.FuncByObj[f]; ok && !seen[c.Key] {
							seen[c.Key] = true
							work = append(work, c.Key)
						}
					}
				}
			}
			return true
		})
	}
	var out []string
	for k := range seen {
		if p.Funcs[k].Lit != nil {
			continue // closures are covered where they are inlined
		}
		out = append(out, k)
	}
	sort.Strings(out)
	return out
}

func baseOblName(n string) string {
	// strip the trailing #<ordinal>
	if i := strings.LastIndex(n, "#"); i > 0 {
		tail := n[i+1:]
		num := tail != ""
		for _, r := range tail {
			if r < '0' || r > '9' {
				num = false
			}
		}
		if num {
			return n[:i]
		}
	}
	return n
}

// loadSweep fills run.Results / run.Obls from the (cached) sweep for one property.
func loadSweep(p *Program, run *CheckRun, cfg PropertyCfg, timeout int) {
	sweepMode = true
	maxPaths = 2
	top, rest := sweepHalves(p)
	// quick tier: the functions whose symbolic execution alone takes several minutes are left to
	// the thorough tier (each quick command must finish within a per-command budget of minutes);
	// the evidence names them
	skipped := map[string]bool{}
	if run.Tier != "thorough" {
		for _, k := range quickTierSkips {
			skipped[k] = true
		}
		filter := func(ks []string) []string {
			var out []string
			for _, k := range ks {
				if !skipped[k] {
					out = append(out, k)
				}
			}
			return out
		}
		top, rest = filter(top), filter(rest)
		run.Extra["quick_tier_leaves_to_thorough"] = quickTierSkips
	}
	parts := cfg.Sweep.Parts
	if len(parts) == 0 {
		parts = []string{"rest", "top"}
	}
	sr := &SweepResult{}
	var info []map[string]interface{}
	for _, part := range parts {
		keys := rest
		if part == "top" {
			keys = top
		}
		one := sweepCached(p, keys, timeout)
		sr.Results = append(sr.Results, one.Results...)
		info = append(info, map[string]interface{}{"part": part, "functions_swept": len(keys), "digest": one.Digest, "cache_hit": one.CacheHit, "sweep_wall_s": round3(one.WallS), "workers": one.Workers})
	}
	run.Extra["sweep"] = map[string]interface{}{
		"parts": info,
		"note":  "the sweep executes every function of the package symbolically under its contract (or none) once per tree state, in two halves ('top': the entry points and the other functions tagged C18; 'rest': everything else); C08's command runs 'rest', C18's runs 'top' (including the panic-freedom obligations of those functions), C19 and C20 read both halves from the cache or run what is missing",
	}
	want := map[string]bool{}
	for _, k := range cfg.Sweep.Funcs(p) {
		if !skipped[k] {
			want[k] = true
		}
	}
	byKey := map[string]*FuncResult{}
	for _, r := range sr.Results {
		if r != nil {
			byKey[r.Key] = r
		}
	}
	var keys []string
	for k := range want {
		keys = append(keys, k)
	}
	sort.Strings(keys)
	var unclaimed []map[string]string
	for _, k := range keys {
		r := byKey[k]
		if r == nil {
			fi := p.Funcs[k]
			if fi != nil && fi.Contract != nil && fi.Contract.Opts["trusted"] != "" {
				continue
			}
			r = &FuncResult{Key: k, Undecided: "not part of the sweep result"}
		}
		fr := &FuncResult{Key: r.Key, Undecided: r.Undecided, Notes: r.Notes, Externs: r.Externs, Trusted: r.Trusted}
		for _, o := range r.Obls {
			if !o.Canary && cfg.Sweep.SelectP != nil {
				if !cfg.Sweep.SelectP(p, o) {
					continue
				}
			} else if !o.Canary && cfg.Sweep.Select != nil && !cfg.Sweep.Select(o) {
				continue
			}
			if why, ok := cfg.Sweep.Unclaimed[baseOblName(o.Name)]; ok && !o.Canary {
				unclaimed = append(unclaimed, map[string]string{"obligation": o.Name, "status": o.Status, "reason": why})
				continue
			}
			fr.Obls = append(fr.Obls, o)
		}
		run.Results = append(run.Results, fr)
		run.Obls = append(run.Obls, fr.Obls...)
	}
	if len(unclaimed) > 0 {
		run.Extra["unclaimed_obligations"] = unclaimed
	}
}

// cueListHeaps: the heap arrays (described as in obligation names, with their group prefixes) that
// can hold part of a cue list, i.e. everything reachable by type from Subtitles.
func cueListHeaps(p *Program) map[string]bool {
	out := map[string]bool{}
	tn, ok := p.Pkg.Types.Scope().Lookup("Subtitles").(*types.TypeName)
	if !ok {
		return out
	}
	ex := newExec(p, nil)
	ms := newModSet()
	ex.modReachable(ms, types.NewPointer(tn.Type()), map[string]bool{}, true)
	for h := range ms.heaps {
		d := describeHeapName(h)
		out[d] = true
		out[heapGroup(d)] = true
		out[heapGroup(d)+".*"] = true
	}
	return out
}

var cueHeapsMemo map[string]bool

// purityObligationOfCueList: an `assigns` obligation about a heap that can hold cue-list data.
func purityObligationOfCueList(p *Program, o *Obligation) bool {
	if cueHeapsMemo == nil {
		cueHeapsMemo = cueListHeaps(p)
	}
	i := strings.Index(o.Name, "#assigns[")
	if i < 0 {
		return false
	}
	d := o.Name[i+len("#assigns["):]
	if j := strings.LastIndex(d, "]"); j >= 0 {
		d = d[:j]
	}
	if j := strings.Index(d, ":"); j >= 0 {
		d = d[j+1:]
	}
	return cueHeapsMemo[d]
}

// sweepHalves: "top" = the entry points plus every function tagged `prop C18` (the long-running
// readers and writers and their I/O helpers); "rest" = all other swept functions.
func sweepHalves(p *Program) (top, rest []string) {
	isTop := map[string]bool{}
	for _, k := range entryPoints(p) {
		isTop[k] = true
	}
	for _, k := range propFuncs(p, "C18") {
		isTop[k] = true
	}
	for _, k := range sweepFuncs(p) {
		if isTop[k] {
			top = append(top, k)
		} else {
			rest = append(rest, k)
		}
	}
	return
}

// quickTierSkips: functions swept by the thorough tier only (several minutes each; see DESIGN.md
// section 3). Everything else -- including every helper they call -- is swept by the quick tier.
var quickTierSkips = []string{
	"ReadFromTeletext", "ReadFromSTL", "ReadFromTTML", "ReadFromWebVTT",
	"Subtitles.WriteToWebVTT", "Subtitles.WriteToTTML",
	"teletextPageBuffer.process", "teletextPageBuffer.parsePacketData", "teletextPageBuffer.parsePacket", "teletextPageBuffer.parseDataUnit", "teletextPageBuffer.parsePacketHeader",
}
