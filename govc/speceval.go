package main

// Evaluation of contract expressions over symbolic states.

import (
	"fmt"
	"go/constant"
	"go/token"
	"go/types"
	"math/big"
	"strings"
)

type GhostInst struct {
	Name   string // SMT function name
	Params []Sort
	Ret    Sort
	RetT   types.Type
	Lambda func(args []*Term) *Term // when set, calls are expanded through it (witness)
}

type SpecCtx struct {
	ex     *Exec
	st     *State // heap state
	vst    *State // state providing local and ghost variables (nil: st); old() keeps it
	old    *State
	env    map[string]Val
	ghosts map[string]*GhostInst
	pos    token.Pos    // position for resolving Go locals by name (0: none)
	scope  *types.Scope // innermost scope at pos
	depth  int
}

func (c *SpecCtx) with(name string, v Val) *SpecCtx {
	n := *c
	n.env = make(map[string]Val, len(c.env)+1)
	for k, x := range c.env {
		n.env[k] = x
	}
	n.env[name] = v
	return &n
}

func (c *SpecCtx) inOld() *SpecCtx {
	n := *c
	if n.vst == nil {
		n.vst = c.st
	}
	n.st = c.old
	return &n
}

func (c *SpecCtx) varState() *State {
	if c.vst != nil {
		return c.vst
	}
	return c.st
}

type specFail string

func (c *SpecCtx) fail(f string, a ...interface{}) { panic(specFail(fmt.Sprintf(f, a...))) }

func (c *SpecCtx) resolveType(name string) types.Type {
	switch name {
	case "int", "ref":
		return tInt
	case "bool":
		return tBool
	case "string":
		return tString
	case "float64", "real":
		return tFloat
	case "byte", "uint8":
		return tByte
	case "time.Duration":
		if p := c.ex.importedPkg("time"); p != nil {
			return p.Scope().Lookup("Duration").Type()
		}
		return types.Typ[types.Int64]
	}
	prefix := ""
	rest := name
	for strings.HasPrefix(rest, "*") || strings.HasPrefix(rest, "[]") {
		if rest[0] == '*' {
			prefix += "*"
			rest = rest[1:]
		} else {
			prefix += "[]"
			rest = rest[2:]
		}
	}
	var base types.Type
	if i := strings.Index(rest, "."); i >= 0 {
		if p := c.ex.importedPkg(rest[:i]); p != nil {
			if o := p.Scope().Lookup(rest[i+1:]); o != nil {
				base = o.Type()
			}
		}
	} else if o := c.ex.P.Pkg.Types.Scope().Lookup(rest); o != nil {
		base = o.Type()
	} else if o := types.Universe.Lookup(rest); o != nil {
		base = o.Type()
	}
	if base == nil {
		c.fail("unknown type %q", name)
	}
	for i := len(prefix) - 1; i >= 0; i-- {
		if prefix[i] == '*' {
			base = types.NewPointer(base)
		} else if prefix[i] == ']' {
			base = types.NewSlice(base)
			i--
		}
	}
	return base
}

func (c *SpecCtx) evalBool(e *SExpr) *Term {
	v := c.eval(e)
	if len(v.C) != 1 || v.C[0].sort != SBool {
		c.fail("expected boolean, got %v in %s", v, e)
	}
	return v.C[0]
}

func (c *SpecCtx) evalTerm(e *SExpr) *Term {
	v := c.eval(e)
	if len(v.C) != 1 {
		c.fail("expected scalar, got %v in %s", v, e)
	}
	return v.C[0]
}

func (c *SpecCtx) eval(e *SExpr) Val {
	switch e.Op {
	case "int":
		n, ok := new(big.Int).SetString(e.Tok, 0)
		if !ok {
			c.fail("bad int %q", e.Tok)
		}
		return intVal(BigLit(n))
	case "float":
		return scalar(tFloat, RealLit(e.Tok))
	case "str":
		return scalar(tString, StrLit(e.Tok))
	case "id":
		return c.ident(e.Tok)
	case "old":
		return c.inOld().eval(e.Args[0])
	case "un":
		x := c.eval(e.Args[0])
		switch e.Tok {
		case "!":
			return boolVal(Not(x.term()))
		case "-":
			return scalar(x.T, Neg(x.term()))
		}
	case "ite":
		cond := c.evalBool(e.Args[0])
		a := c.eval(e.Args[1])
		b := c.eval(e.Args[2])
		a, b = unify(a, b)
		return iteVal(cond, a, b)
	case "let":
		v := c.eval(e.Args[0])
		return c.with(e.Tok, v).eval(e.Args[1])
	case "quant":
		return c.quant(e)
	case "bin":
		return c.binary(e)
	case "sel":
		return c.selector(e)
	case "idx":
		x := c.eval(e.Args[0])
		i := c.eval(e.Args[1])
		return c.index(x, i)
	case "slice":
		x := c.eval(e.Args[0])
		return c.slice(x, e.Args[1], e.Args[2])
	case "call":
		return c.call(e)
	}
	c.fail("cannot evaluate %s", e)
	return Val{}
}

// unify adapts nil/int literals to the other operand's type.
func unify(a, b Val) (Val, Val) {
	if len(a.C) == len(b.C) {
		if a.C[0].sort == SInt && b.C[0].sort == SReal && len(a.C) == 1 {
			a = scalar(b.T, ToReal(a.C[0]))
		} else if a.C[0].sort == SReal && b.C[0].sort == SInt && len(a.C) == 1 {
			b = scalar(a.T, ToReal(b.C[0]))
		}
		return a, b
	}
	if isNilVal(a) {
		return zeroVal(b.T), b
	}
	if isNilVal(b) {
		return a, zeroVal(a.T)
	}
	return a, b
}

func isNilVal(v Val) bool {
	b, ok := v.T.(*types.Basic)
	return ok && b.Kind() == types.UntypedNil
}

func (c *SpecCtx) ident(name string) Val {
	if v, ok := c.env[name]; ok {
		return v
	}
	if v, ok := c.varState().ghost[name]; ok {
		return v
	}
	switch name {
	case "nil":
		return Val{T: types.Typ[types.UntypedNil], C: []*Term{IntLit(0)}}
	case "true":
		return boolVal(True)
	case "false":
		return boolVal(False)
	}
	// Go local at the contract's position
	if c.scope != nil {
		if _, obj := c.scope.LookupParent(name, c.pos); obj != nil {
			switch o := obj.(type) {
			case *types.Var:
				if v, ok := c.varState().vars[o]; ok {
					if c.ex.boxed[o] {
						return c.st.loadStruct(v.C[0], o.Type())
					}
					return v
				}
				if o.Parent() == c.ex.P.Pkg.Types.Scope() || (o.Pkg() != nil && o.Parent() == o.Pkg().Scope()) {
					return c.ex.globalVal(o)
				}
				c.fail("variable %s has no value in this state", name)
			case *types.Const:
				return constVal(o.Val(), o.Type())
			}
		}
	}
	if o := c.ex.P.Pkg.Types.Scope().Lookup(name); o != nil {
		switch o := o.(type) {
		case *types.Var:
			return c.ex.globalVal(o)
		case *types.Const:
			return constVal(o.Val(), o.Type())
		}
	}
	c.fail("unknown identifier %q", name)
	return Val{}
}

func constVal(v constant.Value, t types.Type) Val {
	switch v.Kind() {
	case constant.Bool:
		return scalar(defaultType(t, tBool), BoolLit(constant.BoolVal(v)))
	case constant.String:
		return scalar(defaultType(t, tString), StrLit(constant.StringVal(v)))
	case constant.Int:
		n, ok := new(big.Int).SetString(v.ExactString(), 10)
		if !ok {
			panic("bad const int " + v.ExactString())
		}
		if b, ok := t.Underlying().(*types.Basic); ok && b.Info()&types.IsFloat != 0 {
			return scalar(t, ToReal(BigLit(n)))
		}
		return scalar(defaultType(t, tInt), BigLit(n))
	case constant.Float:
		if b, ok := t.Underlying().(*types.Basic); ok && b.Info()&types.IsInteger != 0 {
			if i := constant.ToInt(v); i.Kind() == constant.Int {
				n, _ := new(big.Int).SetString(i.ExactString(), 10)
				return scalar(t, BigLit(n))
			}
		}
		r, _ := new(big.Rat).SetString(v.ExactString())
		return scalar(defaultType(t, tFloat), ratLit(r))
	}
	panic(fmt.Sprintf("constVal: unsupported constant %v", v))
}

func ratLit(r *big.Rat) *Term {
	neg := r.Sign() < 0
	a := new(big.Rat).Abs(r)
	var s string
	if a.IsInt() {
		s = a.Num().String() + ".0"
	} else {
		s = "(/ " + a.Num().String() + ".0 " + a.Denom().String() + ".0)"
	}
	if neg {
		s = "(- " + s + ")"
	}
	return RealLit(s)
}

func defaultType(t types.Type, d types.Type) types.Type {
	if t == nil {
		return d
	}
	if b, ok := t.(*types.Basic); ok && b.Info()&types.IsUntyped != 0 {
		return d
	}
	return t
}

func (c *SpecCtx) quant(e *SExpr) Val {
	n := c
	var vars []*Term
	for _, b := range e.Binds {
		t := c.resolveType(b.Type)
		cs := flatten(t)
		if len(cs) != 1 {
			c.fail("quantified variable %s of composite type %s", b.Name, b.Type)
		}
		bv := BVar(b.Name, cs[0].Sort)
		vars = append(vars, bv)
		n = n.with(b.Name, scalar(t, bv))
	}
	body := n.evalBool(e.Args[0])
	var pats [][]*Term
	for _, tr := range e.Trig {
		var p []*Term
		for _, x := range tr {
			p = append(p, n.evalTerm(x))
		}
		pats = append(pats, p)
	}
	if len(pats) == 0 {
		vars, body = absolutize(vars, body)
	}
	if e.Tok == "forall" {
		return boolVal(Forall(vars, body, pats...))
	}
	return boolVal(Exists(vars, body, pats...))
}

// absolutize rewrites a quantifier over a slice-relative index k, occurring as
// select(A, off + k), into one over the absolute position p = off + k, so that
// the pattern select(A, p) binds the whole index term (E-matching cannot look
// inside sums). Semantics are unchanged: k ranges over all integers, so does p.
func absolutize(vars []*Term, body *Term) ([]*Term, *Term) {
	isVar := map[int]bool{}
	for _, v := range vars {
		isVar[v.id] = true
	}
	out := append([]*Term(nil), vars...)
	for vi, v := range vars {
		if v.sort != SInt {
			continue
		}
		// find select(_, (+ off v)) with off free of the bound variables
		var found *Term
		seen := map[int]bool{}
		var rec func(t *Term)
		rec = func(t *Term) {
			if found != nil || seen[t.id] || !t.bound {
				return
			}
			seen[t.id] = true
			if t.kind == 0 && t.op == "select" && len(t.args) == 2 {
				ix := t.args[1]
				if ix.kind == 0 && ix.op == "+" && len(ix.args) == 2 && ix.args[1] == v && !mentionsAny(ix.args[0], map[int]bool{v.id: true}) {
					found = ix
					return
				}
			}
			for _, a := range t.args {
				rec(a)
			}
		}
		rec(body)
		if found == nil {
			continue
		}
		p := BVar("p", SInt)
		body = Subst(body, map[int]*Term{found.id: p, v.id: Sub(p, found.args[0])})
		out[vi] = p
		delete(isVar, v.id)
		isVar[p.id] = true
	}
	return out, body
}

func mentionsAny(t *Term, ids map[int]bool) bool {
	if !t.bound {
		return false
	}
	return containsTerm(t, ids)
}

func (c *SpecCtx) binary(e *SExpr) Val {
	switch e.Tok {
	case "&&":
		return boolVal(And(c.evalBool(e.Args[0]), c.evalBool(e.Args[1])))
	case "||":
		return boolVal(Or(c.evalBool(e.Args[0]), c.evalBool(e.Args[1])))
	case "==>":
		return boolVal(Implies(c.evalBool(e.Args[0]), c.evalBool(e.Args[1])))
	case "<==>":
		return boolVal(Iff(c.evalBool(e.Args[0]), c.evalBool(e.Args[1])))
	}
	a := c.eval(e.Args[0])
	b := c.eval(e.Args[1])
	a, b = unify(a, b)
	switch e.Tok {
	case "==", "!=":
		if len(a.C) != len(b.C) {
			c.fail("comparing %v with %v", a, b)
		}
		var eqs []*Term
		if isIface(a.T) && isIface(b.T) {
			eqs = append(eqs, Eq(a.C[0], b.C[0]), Eq(a.C[1], b.C[1]))
		} else if _, isSl := a.T.Underlying().(*types.Slice); isSl && len(a.C) == 4 {
			// slice comparison in specs: same header
			for i := range a.C {
				eqs = append(eqs, Eq(a.C[i], b.C[i]))
			}
		} else {
			for i := range a.C {
				eqs = append(eqs, Eq(a.C[i], b.C[i]))
			}
		}
		r := And(eqs...)
		if e.Tok == "!=" {
			r = Not(r)
		}
		return boolVal(r)
	case "++":
		return scalar(tString, Cat(a.term(), b.term()))
	}
	x, y := a.term(), b.term()
	rt := a.T
	if isUntypedConstType(rt) {
		rt = b.T
	}
	switch e.Tok {
	case "<":
		return boolVal(Lt(x, y))
	case "<=":
		return boolVal(Le(x, y))
	case ">":
		return boolVal(Gt(x, y))
	case ">=":
		return boolVal(Ge(x, y))
	case "+":
		if x.sort == SStr {
			return scalar(tString, Cat(x, y))
		}
		return scalar(rt, Add(x, y))
	case "-":
		return scalar(rt, Sub(x, y))
	case "*":
		return scalar(rt, Mul(x, y))
	case "/":
		if x.sort == SReal || y.sort == SReal {
			return scalar(tFloat, App("/", SReal, ToReal(x), ToReal(y)))
		}
		return scalar(rt, TDiv(x, y))
	case "%":
		return scalar(rt, TMod(x, y))
	}
	c.fail("unsupported operator %s", e.Tok)
	return Val{}
}

func isUntypedConstType(t types.Type) bool {
	return t == tInt
}

func isIface(t types.Type) bool {
	if t == nil {
		return false
	}
	_, ok := t.Underlying().(*types.Interface)
	return ok
}

func (c *SpecCtx) selector(e *SExpr) Val {
	// package-qualified names
	if e.Args[0].Op == "id" {
		if _, isLocal := c.env[e.Args[0].Tok]; !isLocal {
			if p := c.ex.importedPkg(e.Args[0].Tok); p != nil && (c.scope == nil || !c.shadowed(e.Args[0].Tok)) {
				o := p.Scope().Lookup(e.Tok)
				switch o := o.(type) {
				case *types.Const:
					return constVal(o.Val(), o.Type())
				case *types.Var:
					return c.ex.globalVal(o)
				}
				c.fail("unknown %s.%s", e.Args[0].Tok, e.Tok)
			}
		}
	}
	x := c.eval(e.Args[0])
	return c.field(x, e.Tok)
}

func (c *SpecCtx) shadowed(name string) bool {
	if c.scope == nil {
		return false
	}
	_, obj := c.scope.LookupParent(name, c.pos)
	if obj == nil {
		return false
	}
	_, isPkg := obj.(*types.PkgName)
	return !isPkg
}

func (c *SpecCtx) field(x Val, name string) Val {
	if p, ok := x.T.Underlying().(*types.Pointer); ok {
		if findField(p.Elem(), name) != nil {
			return c.st.loadField(x.C[0], p.Elem(), name)
		}
	}
	if fv, _, ok := structField(x, name); ok {
		return fv
	}
	// ghost fields
	if s, ok := c.ex.P.GhostFlds[name]; ok {
		ref := x.C[len(x.C)-1]
		if len(x.C) == 4 { // slices: ghost of backing array
			ref = x.C[0]
		}
		h := c.st.heapGet("G$"+name, SArr(SInt, s))
		return scalar(sortType(s), Select(h, ref))
	}
	c.fail("no field %s on %v", name, x.T)
	return Val{}
}

func sortType(s Sort) types.Type {
	switch s {
	case SBool:
		return tBool
	case SStr:
		return tString
	case SReal:
		return tFloat
	}
	return tInt
}

func (c *SpecCtx) index(x Val, i Val) Val {
	switch u := x.T.Underlying().(type) {
	case *types.Slice:
		return c.st.elemLoad(x, i.term())
	case *types.Map:
		return c.st.mapGetRaw(x, i.term())
	case *types.Basic:
		if u.Info()&types.IsString != 0 {
			return scalar(tByte, StrAt(x.term(), i.term()))
		}
	case *types.Array:
		cs := flatten(u.Elem())
		out := Val{T: u.Elem(), C: make([]*Term, len(cs))}
		for k := range cs {
			out.C[k] = Select(x.C[k], i.term())
		}
		return out
	}
	c.fail("cannot index %v", x.T)
	return Val{}
}

func (c *SpecCtx) slice(x Val, lo, hi *SExpr) Val {
	p := sliceParts(x)
	l := IntLit(0)
	if lo != nil {
		l = c.evalTerm(lo)
	}
	h := p.len
	if hi != nil {
		h = c.evalTerm(hi)
	}
	return mkSlice(x.T, p.arr, Add(p.off, l), Sub(h, l), Sub(p.cap, l))
}

func (c *SpecCtx) call(e *SExpr) Val {
	fn := e.Args[0]
	args := e.Args[1:]
	if fn.Op == "id" {
		switch fn.Tok {
		case "len":
			x := c.eval(args[0])
			switch u := x.T.Underlying().(type) {
			case *types.Slice:
				return intVal(x.C[2])
			case *types.Basic:
				if u.Info()&types.IsString != 0 {
					return intVal(StrLen(x.term()))
				}
			case *types.Array:
				return intVal(IntLit(u.Len()))
			case *types.Map:
				_, d := c.st.mapDom(x)
				dom := Select(d, x.C[0])
				fn := "maplen$" + sanitize(string(dom.sort))
				DeclareFun(fn, []Sort{dom.sort}, SInt)
				return intVal(App(fn, SInt, dom))
			}
			c.fail("len of %v", x.T)
		case "cap":
			return intVal(c.eval(args[0]).C[3])
		case "arr":
			return intVal(c.eval(args[0]).C[0])
		case "off":
			return intVal(c.eval(args[0]).C[1])
		case "min":
			a, b := c.evalTerm(args[0]), c.evalTerm(args[1])
			return scalar(c.eval(args[0]).T, Ite(Le(a, b), a, b))
		case "max":
			a, b := c.evalTerm(args[0]), c.evalTerm(args[1])
			return scalar(c.eval(args[0]).T, Ite(Ge(a, b), a, b))
		case "abs":
			a := c.evalTerm(args[0])
			zero := IntLit(0)
			if a.sort == SReal {
				zero = RealLit("0.0")
			}
			return scalar(c.eval(args[0]).T, Ite(Ge(a, zero), a, Neg(a)))
		case "real":
			return scalar(tFloat, ToReal(c.evalTerm(args[0])))
		case "ref": // identity of a reference / interface payload
			x := c.eval(args[0])
			return intVal(x.C[len(x.C)-1])
		case "toint": // integer part of a non-negative real (floor)
			return intVal(App("to_int", SInt, ToReal(c.evalTerm(args[0]))))
		case "strpadleft": // astikit.StrPad(s, ch, n, PadLeft)
			DeclareFun("strpadleft", []Sort{SStr, SInt, SInt}, SStr)
			return scalar(tString, App("strpadleft", SStr, c.evalTerm(args[0]), c.evalTerm(args[1]), c.evalTerm(args[2])))
		case "has": // has(m, k): key k in map m
			m := c.eval(args[0])
			k := c.evalTerm(args[1])
			return boolVal(And(Neq(m.C[0], IntLit(0)), c.st.mapHas(m, k)))
		case "fresh": // allocated after the pre-state
			x := c.eval(args[0])
			return boolVal(Ge(x.C[0], c.old.ctr))
		case "allocated":
			x := c.eval(args[0])
			return boolVal(And(Gt(x.C[0], IntLit(0)), Lt(x.C[0], c.st.ctr)))
		case "sameElems": // sameElems(a, T): backing array a of element type T is as in the pre-state
			a := c.evalTerm(args[0])
			et := c.resolveType(typeArg(args[1]))
			var eqs []*Term
			for _, cp := range flatten(et) {
				_, hc := c.st.elemHeap(et, cp)
				_, ho := c.old.elemHeap(et, cp)
				eqs = append(eqs, Eq(Select(hc, a), Select(ho, a)))
			}
			return boolVal(And(eqs...))
		case "sameField": // sameField(r, Type.Field)
			r := c.evalTerm(args[0])
			if args[1].Op != "sel" || args[1].Args[0].Op != "id" {
				c.fail("sameField: expected Type.Field")
			}
			t := c.ex.namedStruct(args[1].Args[0].Tok)
			if t == nil {
				c.fail("sameField: unknown struct %s", args[1].Args[0].Tok)
			}
			return boolVal(Eq(c.st.loadField(r, t, args[1].Tok).C[0], c.old.loadField(r, t, args[1].Tok).C[0]))
		case "rawelem": // rawelem(x, m): element at absolute position m of x's backing array
			x := c.eval(args[0])
			m := c.evalTerm(args[1])
			et := elemType(x.T)
			cs := flatten(et)
			v := Val{T: et, C: make([]*Term, len(cs))}
			for i, cp := range cs {
				_, h := c.st.elemHeap(et, cp)
				v.C[i] = Select(Select(h, x.C[0]), m)
			}
			return v
		case "visited": // visited(n, key): ghost visited-set of map-range loop n
			n := args[0].Tok
			g, ok := c.varState().ghost["$visited"+n]
			if !ok {
				c.fail("no map-range loop %s in scope", n)
			}
			return boolVal(Select(g.C[0], c.evalTerm(args[1])))
		case "at": // at(mark, e): e evaluated in the state saved by `call mark_<name>` in a harness
			m, ok := c.ex.marks[args[0].Tok]
			if !ok {
				c.fail("unknown mark %s", args[0].Tok)
			}
			n := *c
			if n.vst == nil {
				n.vst = c.st
			}
			n.st = m
			return n.eval(args[1])
		case "fprnd": // float64 rounding of a real value (rounding-error model)
			return scalar(tFloat, c.ex.rounded(c.st, ToReal(c.evalTerm(args[0]))))
		case "fptrunc": // float64 -> int64 conversion (truncation toward zero)
			saved := c.ex.floatModel
			c.ex.floatModel = "rounding-error"
			r := c.ex.truncToInt(c.st, ToReal(c.evalTerm(args[0])))
			c.ex.floatModel = saved
			return intVal(r)
		case "emptymap": // ghost integer map (total, default 0)
			return Val{T: tInt, C: []*Term{zeroOfSort(SArr(SInt, SInt))}}
		case "mapstore":
			m := c.eval(args[0])
			return Val{T: tInt, C: []*Term{Store(m.C[0], c.evalTerm(args[1]), c.evalTerm(args[2]))}}
		case "mapsel":
			m := c.eval(args[0])
			return intVal(Select(m.C[0], c.evalTerm(args[1])))
		case "preexisting": // allocated before the call
			x := c.eval(args[0])
			return boolVal(Lt(x.C[0], c.old.ctr))
		case "dynptr": // dynptr(x, T): interface value x holds a *T
			x := c.eval(args[0])
			nt := c.ex.namedStruct(typeArg(args[1]))
			if nt == nil || len(x.C) != 2 {
				panic(undecided{"dynptr: unknown struct type or non-interface argument"})
			}
			return boolVal(Eq(x.C[0], typeTag(types.NewPointer(nt))))
		case "bimapvals": // bimapvals(x, T): the BiMap x returns values of dynamic type T from Get
			x := c.eval(args[0])
			DeclareFun("bimapValTag", []Sort{SInt}, SInt)
			return boolVal(Eq(App("bimapValTag", SInt, x.C[0]), typeTag(c.resolveType(typeArg(args[1])))))
		case "dynfield": // dynfield(x, T, f): field f of the *T held by interface value x
			x := c.eval(args[0])
			nt := c.ex.namedStruct(typeArg(args[1]))
			if nt == nil || len(x.C) != 2 {
				panic(undecided{"dynfield: unknown struct type or non-interface argument"})
			}
			return c.st.loadField(x.C[1], nt, args[2].Tok)
		case "isnil":
			x := c.eval(args[0])
			return boolVal(Eq(x.C[0], IntLit(0)))
		case "itoa":
			DeclareFun("itoa", []Sort{SInt}, SStr)
			return scalar(tString, App("itoa", SStr, c.evalTerm(args[0])))
		case "txt": // abstract text of a cue (Item.String())
			x := c.eval(args[0])
			return scalar(tString, c.ex.itemText(c.st, x.C[0]))
		case "txtv": // abstract text of a cue value (Item passed by value)
			x := c.eval(args[0])
			return scalar(tString, c.ex.itemTextOfStruct(c.st, x))
		}
		if m, ok := c.ex.P.Macros[fn.Tok]; ok {
			if len(m.Params) != len(args) {
				c.fail("macro %s: %d args expected, %d given", m.Name, len(m.Params), len(args))
			}
			if c.depth > 20 {
				c.fail("macro expansion too deep at %s", m.Name)
			}
			n := *c
			n.depth++
			n.env = make(map[string]Val, len(c.env)+len(args))
			n.scope = nil
			if m.Opaque {
				return c.opaqueMacro(&n, m, args)
			}
			// macros see only their parameters (and ghost functions)
			for i, p := range m.Params {
				n.env[p.Name] = c.eval(args[i])
			}
			return n.eval(m.Body)
		}
		if g, ok := c.ghosts[fn.Tok]; ok {
			var ts []*Term
			for _, a := range args {
				ts = append(ts, c.evalTerm(a))
			}
			if g.Lambda != nil {
				return scalar(g.RetT, g.Lambda(ts))
			}
			return scalar(g.RetT, App(g.Name, g.Ret, ts...))
		}
		// ghost result of the latest call to a callee on this path: Callee$name(args)
		if strings.Contains(fn.Tok, "$") {
			if g, ok := c.varState().callGhosts[fn.Tok]; ok {
				var ts []*Term
				for _, a := range args {
					ts = append(ts, c.evalTerm(a))
				}
				return scalar(g.RetT, App(g.Name, g.Ret, ts...))
			}
		}
		// uninterpreted spec function: uf_name(args)
		if strings.HasPrefix(fn.Tok, "uf_") {
			var ts []*Term
			var ss []Sort
			for _, a := range args {
				t := c.evalTerm(a)
				ts = append(ts, t)
				ss = append(ss, t.sort)
			}
			ret := SInt
			if strings.HasPrefix(fn.Tok, "uf_b_") {
				ret = SBool
			} else if strings.HasPrefix(fn.Tok, "uf_s_") {
				ret = SStr
			}
			DeclareFun(fn.Tok, ss, ret)
			return scalar(sortType(ret), App(fn.Tok, ret, ts...))
		}
	}
	// pure method calls on Go values used in specs: s.Duration()
	if fn.Op == "sel" {
		recv := c.eval(fn.Args[0])
		if v, ok := c.ex.pureCall(c, recv, fn.Tok, args); ok {
			return v
		}
	}
	c.fail("unknown spec function in %s", e)
	return Val{}
}

var opaqueBV = map[string]*Term{}
var opaquePred = map[int]string{}

// opaqueMacro expands a macro into a state-specific uninterpreted predicate over
// its scalar (non-reference) parameters, defined by an axiom triggered on its
// applications only. Identical states yield the same predicate (hash-consing).
func (c *SpecCtx) opaqueMacro(n *SpecCtx, m *Macro, args []*SExpr) Val {
	var bvs []*Term
	var actual []*Term
	var sorts []Sort
	for i, p := range m.Params {
		t := c.resolveType(p.Type)
		cs := flatten(t)
		isRef := false
		switch t.Underlying().(type) {
		case *types.Pointer, *types.Slice, *types.Map:
			isRef = true
		}
		if isRef || len(cs) != 1 {
			n.env[p.Name] = c.eval(args[i])
			continue
		}
		key := m.Name + "." + p.Name
		bv, ok := opaqueBV[key]
		if !ok {
			bv = BVar(key, cs[0].Sort)
			opaqueBV[key] = bv
		}
		n.env[p.Name] = scalar(t, bv)
		bvs = append(bvs, bv)
		sorts = append(sorts, cs[0].Sort)
		actual = append(actual, c.evalTerm(args[i]))
	}
	savedScope, savedCtr := bvarScope, bvarScopeCtr
	if bvarScope == "" {
		bvarScope, bvarScopeCtr = m.Name, 0
	}
	body := n.evalBool(m.Body)
	bvarScope, bvarScopeCtr = savedScope, savedCtr
	name, ok := opaquePred[body.id]
	if !ok {
		name = fmt.Sprintf("op$%s$%d", m.Name, len(opaquePred)+1)
		opaquePred[body.id] = name
		DeclareFun(name, sorts, SBool)
		app := App(name, SBool, bvs...)
		addAxiomFor(name, Forall(bvs, Eq(app, body), []*Term{app}))
	}
	return boolVal(App(name, SBool, actual...))
}
