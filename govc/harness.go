package main

// Lemma harnesses: straight-line sequences of calls to real functions (through
// their contracts when they have one, through their bodies otherwise) followed
// by a postcondition relating the states.

import (
	"fmt"
	"go/types"
	"strings"
)

func (ex *Exec) verifyHarness(h *Harness) (res *FuncResult) {
	res = &FuncResult{Key: "harness:" + h.Name}
	defer func() {
		if r := recover(); r != nil {
			switch u := r.(type) {
			case undecided:
				res.Undecided = u.reason
				res.Obls = nil
				return
			case specFail:
				res.Undecided = "contract error in harness " + h.Name + ": " + string(u)
				res.Obls = nil
				return
			}
			panic(r)
		}
	}()
	pseudo := &FuncInfo{Key: "harness:" + h.Name, Sig: types.NewSignatureType(nil, nil, nil, nil, nil, false)}
	ex.Fn = pseudo
	ex.curFn = pseudo
	ex.curProps = h.Props
	ex.paramEnv = map[string]Val{}
	if m, ok := h.Opts["float-model"]; ok {
		ex.floatModel = m
	}
	st := newState()
	st.ctr = Sym("ctr$0", SInt)
	st.assume(Ge(st.ctr, IntLit(1)))
	env := map[string]Val{}
	c0 := &SpecCtx{ex: ex, st: st, old: st, env: env, ghosts: ex.ghosts}
	for _, p := range h.Params {
		t := c0.resolveType(p.Type)
		v := freshVal("h."+p.Name, t)
		st.assumeAll(typeFacts(v))
		st.assumeAll(ex.allocFacts(st, v))
		env[p.Name] = v
	}
	ex.pre = st.clone()
	marks := map[string]*State{}
	ex.marks = marks
	mk := func() *SpecCtx { return &SpecCtx{ex: ex, st: st, old: ex.pre, env: env, ghosts: ex.ghosts} }
	for _, r := range h.Requires {
		st.assume(mk().evalBool(r.E))
	}
	ex.pre.facts = append([]*Term(nil), st.facts...)
	ex.canary(st, "entry")
	for i, s := range h.Steps {
		switch s.Kind {
		case "assume":
			st.assume(mk().evalBool(s.E))
		case "let":
			if s.E.Op == "call" && s.E.Args[0].Op != "id" || (s.E.Op == "call" && ex.P.Funcs[s.E.Args[0].Tok] != nil) {
				vals := ex.harnessCall(st, mk(), s.E, fmt.Sprintf("step%d", i+1))
				names := strings.Split(s.Name, ",")
				for k, n := range names {
					n = strings.TrimSpace(n)
					if n != "_" && k < len(vals) {
						env[n] = vals[k]
					}
				}
			} else {
				env[s.Name] = mk().eval(s.E)
			}
		case "call":
			if s.E.Op == "id" && strings.HasPrefix(s.E.Tok, "mark_") {
				marks[strings.TrimPrefix(s.E.Tok, "mark_")] = st.clone()
				continue
			}
			ex.harnessCall(st, mk(), s.E, fmt.Sprintf("step%d", i+1))
		}
	}
	for i, e := range h.Ensures {
		t := mk().evalBool(e.E)
		ex.obligNoAssume(st, "lemma", nil, clauseLabel(e, i, "ens"), t)
	}
	ex.canary(st, "ret1")
	res.Obls = ex.Obls
	for n := range ex.notes {
		res.Notes = append(res.Notes, n)
	}
	for e := range ex.assumedExt {
		res.Externs = append(res.Externs, e)
	}
	return res
}

// harnessCall evaluates f(args) or recv.m(args) on real functions.
func (ex *Exec) harnessCall(st *State, c *SpecCtx, e *SExpr, tag string) []Val {
	if e.Op != "call" {
		c.fail("harness step is not a call: %s", e)
	}
	fn := e.Args[0]
	var fi *FuncInfo
	var recv *Val
	switch fn.Op {
	case "id":
		fi = ex.P.Funcs[fn.Tok]
	case "sel":
		r := c.eval(fn.Args[0])
		t := r.T
		if p, ok := t.Underlying().(*types.Pointer); ok {
			t = p.Elem()
		}
		if n, ok := t.(*types.Named); ok {
			fi = ex.P.Funcs[n.Obj().Name()+"."+fn.Tok]
		}
		if fi != nil {
			rt := fi.Sig.Recv().Type()
			_, wantPtr := rt.Underlying().(*types.Pointer)
			_, havePtr := r.T.Underlying().(*types.Pointer)
			if !wantPtr && havePtr {
				r = st.loadStruct(r.C[0], rt)
			}
		}
		recv = &r
	}
	if fi == nil {
		c.fail("harness: unknown function in %s", e)
	}
	var args []Val
	for i, a := range e.Args[1:] {
		v := c.eval(a)
		if i < fi.Sig.Params().Len() {
			v = ex.coerce(st, nil, v, fi.Sig.Params().At(i).Type())
		}
		args = append(args, v)
	}
	if fi.Contract != nil && fi.Contract.Opts["inline-in-harness"] == "" {
		return ex.applyContract(st, nil, fi.Contract, fi.Sig, fi.Key, recv, args, fi)
	}
	return ex.inline(st, nil, fi, recv, args)
}
