package main

// Lemma harnesses: straight-line sequences of calls to real functions with a
// postcondition relating them.

func (ex *Exec) verifyHarness(h *Harness) *FuncResult {
	return &FuncResult{Key: h.Name, Undecided: "harnesses not implemented yet"}
}
