package main

// Float kernels: float64 expressions of fixed shape whose observable integer
// result is established by a floating-point library lemma (QF_BVFP file under
// /verif/contracts/fp, discharged on every run of the property that uses it).
// A kernel applies only when the expression has exactly the transcribed shape;
// any other float64 expression stays uninterpreted.

import (
	"go/ast"
	"go/token"
	"go/types"
)

const (
	nsHour   = 3600 * 1000000000
	nsMinute = 60 * 1000000000
	nsSecond = 1000000000
)

func (ex *Exec) isPkgFunc(e ast.Expr, pkg, name string) bool {
	sel, ok := unparen(e).(*ast.SelectorExpr)
	if !ok {
		return false
	}
	f, ok := ex.P.Info.Uses[sel.Sel].(*types.Func)
	return ok && f.Pkg() != nil && f.Pkg().Path() == pkg && f.Name() == name
}

// durMethod matches X.<name>() with X of type time.Duration.
func (ex *Exec) durMethod(e ast.Expr) (x ast.Expr, name string, ok bool) {
	call, isCall := unparen(e).(*ast.CallExpr)
	if !isCall || len(call.Args) != 0 {
		return nil, "", false
	}
	sel, isSel := unparen(call.Fun).(*ast.SelectorExpr)
	if !isSel {
		return nil, "", false
	}
	f, isF := ex.P.Info.Uses[sel.Sel].(*types.Func)
	if !isF || f.Pkg() == nil || f.Pkg().Path() != "time" {
		return nil, "", false
	}
	switch f.Name() {
	case "Hours", "Minutes", "Seconds":
		return sel.X, f.Name(), true
	}
	return nil, "", false
}

func (ex *Exec) isConv(e ast.Expr, basic types.BasicKind) (ast.Expr, bool) {
	call, ok := unparen(e).(*ast.CallExpr)
	if !ok || len(call.Args) != 1 {
		return nil, false
	}
	tv, ok := ex.P.Info.Types[call.Fun]
	if !ok || !tv.IsType() {
		return nil, false
	}
	b, ok := tv.Type.Underlying().(*types.Basic)
	if !ok || b.Kind() != basic {
		return nil, false
	}
	return call.Args[0], true
}

func (ex *Exec) useKernel(name string) {
	if ex.kernelsUsed == nil {
		ex.kernelsUsed = map[string]bool{}
	}
	ex.kernelsUsed[name] = true
	ex.note("float kernel backed by FP lemma contracts/fp/" + name + ".smt2")
}

func (ex *Exec) floatKernel(st *State, e ast.Expr) (Val, bool) {
	switch x := e.(type) {
	case *ast.BinaryExpr:
		// X.Hours() < 10  (and Minutes, Seconds)
		if x.Op == token.LSS {
			if d, name, ok := ex.durMethod(x.X); ok {
				if tv, okc := ex.P.Info.Types[x.Y]; okc && tv.Value != nil && tv.Value.ExactString() == "10" {
					dv := ex.eval(st, d).term()
					unit, hi, lemma := durUnit(name)
					inRange := And(Le(IntLit(0), dv), Lt(dv, IntLit(hi)))
					ex.useKernel("lt10_" + lemma)
					return boolVal(Ite(inRange, Lt(dv, IntLit(10*unit)), Fresh("fpcmp", SBool))), true
				}
			}
		}
	case *ast.CallExpr:
		// int(math.Floor(X.Hours()))
		if arg, ok := ex.isConv(x, types.Int); ok {
			if fl, okf := unparen(arg).(*ast.CallExpr); okf && len(fl.Args) == 1 && ex.isPkgFunc(fl.Fun, "math", "Floor") {
				if d, name, okd := ex.durMethod(fl.Args[0]); okd {
					dv := ex.eval(st, d).term()
					unit, hi, lemma := durUnit(name)
					inRange := And(Le(IntLit(0), dv), Lt(dv, IntLit(hi)))
					ex.useKernel("floor_" + lemma)
					other := freshVal("fpfloor", ex.typeOf(x))
					st.assumeAll(typeFacts(other))
					return scalar(ex.typeOf(x), Ite(inRange, EDiv(dv, IntLit(unit)), other.C[0])), true
				}
			}
		}
		// math.Floor(float64(N) / float64(time.Millisecond) / float64(math.Pow(10, 3-float64(K))))
		if len(x.Args) == 1 && ex.isPkgFunc(x.Fun, "math", "Floor") {
			if outer, ok := unparen(x.Args[0]).(*ast.BinaryExpr); ok && outer.Op == token.QUO {
				inner, ok2 := unparen(outer.X).(*ast.BinaryExpr)
				if ok2 && inner.Op == token.QUO {
					nE, okN := ex.isConv(inner.X, types.Float64)
					msE, okM := ex.isConv(inner.Y, types.Float64)
					pE, okP := ex.isConv(outer.Y, types.Float64)
					if okN && okM && okP {
						if tv, okc := ex.P.Info.Types[msE]; okc && tv.Value != nil && tv.Value.ExactString() == "1000000" {
							if pw, okpw := unparen(pE).(*ast.CallExpr); okpw && len(pw.Args) == 2 && ex.isPkgFunc(pw.Fun, "math", "Pow") {
								if tv10, ok10 := ex.P.Info.Types[pw.Args[0]]; ok10 && tv10.Value != nil && tv10.Value.ExactString() == "10" {
									if sub, oks := unparen(pw.Args[1]).(*ast.BinaryExpr); oks && sub.Op == token.SUB {
										if tv3, ok3 := ex.P.Info.Types[sub.X]; ok3 && tv3.Value != nil && tv3.Value.ExactString() == "3" {
											if kE, okK := ex.isConv(sub.Y, types.Float64); okK && isInteger(ex.typeOf(kE)) && isInteger(ex.typeOf(nE)) {
												n := ex.eval(st, nE).term()
												k := ex.eval(st, kE).term()
												inRange := And(Le(IntLit(0), n), Lt(n, IntLit(1000000000)), Or(Eq(k, IntLit(2)), Eq(k, IntLit(3))))
												ex.useKernel("millis_k2")
												ex.useKernel("millis_k3")
												r := Ite(Eq(k, IntLit(3)), EDiv(n, IntLit(1000000)), EDiv(n, IntLit(10000000)))
												// outside the range of the lemma the value is an unconstrained float64
												return scalar(ex.typeOf(x), Ite(inRange, ToReal(r), Fresh("fpfloor", SReal))), true
											}
										}
									}
								}
							}
						}
					}
				}
			}
		}
	}
	return Val{}, false
}

func durUnit(name string) (unit int64, hi int64, lemma string) {
	switch name {
	case "Hours":
		return nsHour, 24 * nsHour, "hours"
	case "Minutes":
		return nsMinute, nsHour, "minutes"
	}
	return nsSecond, nsMinute, "seconds"
}
