package main

// Discharge of obligations by a portfolio of SMT solvers.

import (
	"context"
	"fmt"
	"os"
	"os/exec"
	"path/filepath"
	"strings"
	"sync"
	"time"
)

type SolverCfg struct {
	Name string
	Args []string // file name appended
}

func solverConfigs(timeoutS int, seed int) []SolverCfg {
	return []SolverCfg{
		{"z3-new", []string{"z3-new", fmt.Sprintf("-T:%d", timeoutS), fmt.Sprintf("smt.random_seed=%d", seed)}},
		{"z3", []string{"z3", fmt.Sprintf("-T:%d", timeoutS), fmt.Sprintf("smt.random_seed=%d", seed)}},
		{"cvc5", []string{"cvc5", "--incremental", fmt.Sprintf("--tlimit=%d", timeoutS*1000), fmt.Sprintf("--seed=%d", seed)}},
	}
}

// closure of axioms attached to symbols/functions mentioned by the roots.
func axiomClosure(roots []*Term) []*Term {
	seenT := map[int]bool{}
	seenN := map[string]bool{}
	var out []*Term
	var queue []*Term
	queue = append(queue, roots...)
	var visit func(t *Term)
	visit = func(t *Term) {
		if seenT[t.id] {
			return
		}
		seenT[t.id] = true
		if t.kind == 0 && !seenN[t.op] {
			if axs, ok := axiomsFor[t.op]; ok {
				seenN[t.op] = true
				for _, a := range axs {
					if a != True {
						out = append(out, a)
						queue = append(queue, a)
					}
				}
			}
		}
		for _, a := range t.args {
			visit(a)
		}
		if t.kind == 2 {
			for _, p := range t.pats {
				for _, x := range p {
					visit(x)
				}
			}
		}
	}
	for len(queue) > 0 {
		t := queue[0]
		queue = queue[1:]
		visit(t)
	}
	return out
}

func stringAxioms(roots []*Term) []*Term {
	// which string functions are used?
	used := map[string]bool{}
	lits := map[string]*Term{}
	seen := map[int]bool{}
	var visit func(t *Term)
	visit = func(t *Term) {
		if seen[t.id] {
			return
		}
		seen[t.id] = true
		if t.kind == 0 {
			switch t.op {
			case "cat2", "strlen", "strat", "itoa":
				used[t.op] = true
			}
			if _, ok := strLitVal[t.op]; ok {
				lits[t.op] = t
			}
			if t.op == "str$empty" {
				lits[t.op] = t
			}
			if t.op == "cat2" {
				lits["str$empty"] = strEmpty()
			}
		}
		for _, a := range t.args {
			visit(a)
		}
	}
	for _, r := range roots {
		visit(r)
	}
	var out []*Term
	if len(lits) > 0 || used["strlen"] || used["cat2"] {
		DeclareFun("strlen", []Sort{SStr}, SInt)
		x := BVar("x", SStr)
		ln := App("strlen", SInt, x)
		out = append(out, Forall([]*Term{x}, Ge(ln, IntLit(0)), []*Term{ln}))
		out = append(out, Eq(App("strlen", SInt, strEmpty()), IntLit(0)))
		// only the empty string has length zero
		out = append(out, Forall([]*Term{x}, Implies(Eq(ln, IntLit(0)), Eq(x, strEmpty())), []*Term{ln}))
	}
	if used["cat2"] {
		a, b := BVar("a", SStr), BVar("b", SStr)
		cat := App("cat2", SStr, a, b)
		out = append(out, Forall([]*Term{a, b}, Eq(App("strlen", SInt, cat), Add(App("strlen", SInt, a), App("strlen", SInt, b))), []*Term{cat}))
		// the empty string is the unit of concatenation
		out = append(out, Forall([]*Term{a}, Eq(App("cat2", SStr, strEmpty(), a), a), []*Term{App("cat2", SStr, strEmpty(), a)}))
		out = append(out, Forall([]*Term{a}, Eq(App("cat2", SStr, a, strEmpty()), a), []*Term{App("cat2", SStr, a, strEmpty())}))
	}
	var names []string
	for n := range lits {
		names = append(names, n)
	}
	sortStrings(names)
	var ds []*Term
	for _, n := range names {
		t := lits[n]
		ds = append(ds, t)
		if v, ok := strLitVal[n]; ok {
			out = append(out, Eq(App("strlen", SInt, t), IntLit(int64(len(v)))))
			if used["strat"] && len(v) <= 8 {
				for i := 0; i < len(v); i++ {
					out = append(out, Eq(App("strat", SInt, t, IntLit(int64(i))), IntLit(int64(v[i]))))
				}
			}
		}
	}
	if len(ds) > 1 {
		out = append(out, App("distinct", SBool, ds...))
	}
	if used["strat"] {
		x := BVar("x", SStr)
		i := BVar("i", SInt)
		at := App("strat", SInt, x, i)
		out = append(out, Forall([]*Term{x, i}, And(Le(IntLit(0), at), Le(at, IntLit(255))), []*Term{at}))
	}
	if used["itoa"] {
		// itoa is injective and never empty; decimal length by range
		a, b := BVar("a", SInt), BVar("b", SInt)
		ia, ib := App("itoa", SStr, a), App("itoa", SStr, b)
		out = append(out, Forall([]*Term{a, b}, Implies(Eq(ia, ib), Eq(a, b)), []*Term{ia, ib}))
		la := App("strlen", SInt, ia)
		out = append(out, Forall([]*Term{a}, And(
			Implies(And(Le(IntLit(0), a), Lt(a, IntLit(10))), Eq(la, IntLit(1))),
			Implies(And(Le(IntLit(10), a), Lt(a, IntLit(100))), Eq(la, IntLit(2))),
			Implies(And(Le(IntLit(100), a), Lt(a, IntLit(1000))), Eq(la, IntLit(3))),
			Ge(la, IntLit(1))), []*Term{ia}))
	}
	return out
}

func sortStrings(s []string) {
	for i := 1; i < len(s); i++ {
		for j := i; j > 0 && s[j] < s[j-1]; j-- {
			s[j], s[j-1] = s[j-1], s[j]
		}
	}
}

// termSymbols collects the free constant and function symbols of t.
func termSymbols(t *Term, out map[string]bool) {
	seen := map[int]bool{}
	var rec func(t *Term)
	rec = func(t *Term) {
		if seen[t.id] {
			return
		}
		seen[t.id] = true
		if t.kind == 0 {
			if len(t.args) == 0 {
				if _, ok := symDecls[t.op]; ok && !strings.HasPrefix(t.op, "ctr") {
					out[t.op] = true
				}
			} else if _, ok := funDecls[t.op]; ok {
				out[t.op] = true
			}
		}
		for _, a := range t.args {
			rec(a)
		}
	}
	rec(t)
}

// relevantFacts: quantified facts are kept only when they are connected to the
// goal through shared symbols (two rounds); ground facts are always kept. This
// only weakens the hypotheses, so a proof of the filtered script is a proof.
func relevantFacts(facts []*Term, goal *Term) []*Term {
	rel := map[string]bool{}
	termSymbols(goal, rel)
	// symbols of the definitional axioms of goal symbols count too
	for n := range rel {
		for _, ax := range axiomsFor[n] {
			termSymbols(ax, rel)
		}
	}
	type fi struct {
		t      *Term
		syms   map[string]bool
		q      bool
		in     bool
		ground bool
	}
	var fs []*fi
	for _, f := range facts {
		x := &fi{t: f, syms: map[string]bool{}, q: hasQuantifier(f)}
		termSymbols(f, x.syms)
		if !x.q {
			// ground facts are kept unless they speak about a ghost/opaque notion
			// unrelated to the goal (their definitions would be pulled in)
			x.in = true
			nt, nr := 0, 0
			for s := range x.syms {
				if isTopicSymbol(s) {
					nt++
					if rel[s] {
						nr++
					}
				}
			}
			if nt > 0 && nr == 0 {
				x.in = false
				x.ground = true
			}
		}
		fs = append(fs, x)
	}
	thresholds := []float64{0.6, 0.5, 0.5}
	for _, th := range thresholds {
		add := map[string]bool{}
		for _, x := range fs {
			if x.in || len(x.syms) == 0 {
				continue
			}
			n, nt, nr := 0, 0, 0
			for s := range x.syms {
				if rel[s] {
					n++
				}
				if isTopicSymbol(s) {
					nt++
					if rel[s] {
						nr++
					}
				}
			}
			// a fact whose ghost/opaque notions are all foreign to the goal is off-topic
			topical := nt == 0 || nr > 0
			if topical && (x.ground || float64(n)/float64(len(x.syms)) >= th) {
				x.in = true
				if len(x.syms) <= 12 {
					// large facts are kept but do not widen the relevant vocabulary (no snowballing)
					for s := range x.syms {
						add[s] = true
					}
				}
			}
		}
		for s := range add {
			rel[s] = true
			for _, ax := range axiomsFor[s] {
				termSymbols(ax, rel)
			}
		}
	}
	var out []*Term
	for _, x := range fs {
		if x.in {
			out = append(out, x.t)
		}
	}
	return out
}

func isTopicSymbol(s string) bool {
	return strings.HasPrefix(s, "ghost.") || strings.HasPrefix(s, "op$") || strings.HasPrefix(s, "app.") || strings.HasPrefix(s, "sorted") || strings.HasPrefix(s, "copied")
}

// scriptCone renders the obligation with only the hypotheses that share a symbol with the goal
// (allocation-counter symbols aside, which are always kept with the ground facts about them).
// Dropping hypotheses only weakens them: a proof of this script is a proof of the obligation.
func (o *Obligation) scriptCone(global []*Term) string {
	rel := map[string]bool{}
	termSymbols(o.Goal, rel)
	var facts []*Term
	all := append(append([]*Term(nil), global...), o.Facts...)
	for _, f := range all {
		syms := map[string]bool{}
		termSymbols(f, syms)
		if len(syms) == 0 {
			// only counters / literals
			facts = append(facts, f)
			continue
		}
		hit := false
		for sy := range syms {
			if rel[sy] {
				hit = true
				break
			}
		}
		if hit && (len(syms) <= 12 || !hasQuantifier(f)) {
			facts = append(facts, f)
		} else if hit {
			facts = append(facts, f)
		}
	}
	return o.render(facts)
}

// scriptFiltered renders the obligation with relevance-filtered hypotheses.
func (o *Obligation) scriptFiltered(global []*Term) string {
	facts := append([]*Term(nil), global...)
	facts = append(facts, o.Facts...)
	facts = relevantFacts(facts, o.Goal)
	return o.render(facts)
}

func (o *Obligation) script(global []*Term) string {
	facts := append([]*Term(nil), global...)
	facts = append(facts, o.Facts...)
	return o.render(facts)
}

func (o *Obligation) render(facts []*Term) string {
	roots := append([]*Term(nil), facts...)
	roots = append(roots, o.Goal)
	roots = append(roots, o.Axioms...)
	axs := axiomClosure(roots)
	axs = append(axs, unfoldInstances(append(append([]*Term(nil), roots...), axs...))...)
	all := append(append([]*Term(nil), roots...), axs...)
	sax := stringAxioms(all)
	s := &Script{Axioms: append(append(sax, o.Axioms...), axs...), Facts: facts, Goal: o.Goal}
	return s.Render(true)
}

type Discharger struct {
	Quick    bool // single solver, no filtered variant (Houdini probes)
	WorkDir  string
	TimeoutS int
	Seed     int
	Par      int
	Retry    bool
}

func (d *Discharger) runOne(ctx context.Context, cfg SolverCfg, file string) (string, string) {
	args := append(append([]string(nil), cfg.Args[1:]...), file)
	cmd := exec.CommandContext(ctx, cfg.Args[0], args...)
	out, _ := cmd.CombinedOutput()
	// the verdict is the first line that is a verdict (solvers may print warnings before it)
	first := ""
	for _, l := range strings.Split(string(out), "\n") {
		l = strings.TrimSpace(l)
		if strings.HasPrefix(l, "(error") && !strings.Contains(l, "model is not available") {
			// a script the solver could not read decides nothing (neither proved nor refuted)
			first = "error"
			break
		}
		if l == "sat" || l == "unsat" || l == "unknown" || l == "timeout" {
			first = l
			break
		}
	}
	if first == "" {
		first = trunc(strings.TrimSpace(strings.SplitN(string(out), "\n", 2)[0]), 80)
	}
	return first, string(out)
}

func sanitizeFile(s string) string {
	s = sanitize(s)
	if len(s) > 150 {
		s = s[:150]
	}
	return s
}

func (d *Discharger) dischargeAll(obls []*Obligation, global []*Term) {
	os.MkdirAll(d.WorkDir, 0o755)
	// scripts are rendered sequentially (term tables are not thread safe), solved in parallel
	type job struct {
		o *Obligation
	}
	var wg sync.WaitGroup
	sem := make(chan struct{}, d.Par)
	var mu sync.Mutex
	for _, o := range obls {
		o := o
		mu.Lock()
		script := o.script(global)
		fname := filepath.Join(d.WorkDir, sanitizeFile(o.Name)+".smt2")
		os.WriteFile(fname, []byte(script), 0o644)
		o.File = fname
		if !o.Canary {
			if sf := o.scriptFiltered(global); len(sf) < len(script)*9/10 {
				o.FileF = filepath.Join(d.WorkDir, sanitizeFile(o.Name)+".f.smt2")
				os.WriteFile(o.FileF, []byte(sf), 0o644)
			}
		}
		mu.Unlock()
		wg.Add(1)
		sem <- struct{}{}
		go func() {
			defer wg.Done()
			defer func() { <-sem }()
			d.solveFile(o, fname)
		}()
	}
	wg.Wait()
}

func (d *Discharger) solveFile(o *Obligation, fname string) {
	type job struct {
		cfg      SolverCfg
		file     string
		filtered bool
	}
	try := func(timeout int, seed int) bool {
		cfgs := solverConfigs(timeout, seed)
		var jobs []job
		if o.Canary || d.Quick {
			jobs = []job{{cfgs[0], fname, false}}
		} else {
			for _, c := range cfgs {
				jobs = append(jobs, job{c, fname, false})
			}
			if o.FileF != "" {
				for _, c := range cfgs[:2] {
					jobs = append(jobs, job{c, o.FileF, true})
				}
			}
		}
		ctx, cancel := context.WithTimeout(context.Background(), time.Duration(timeout+5)*time.Second)
		defer cancel()
		type res struct {
			name, first, out string
			dt               float64
			filtered         bool
		}
		ch := make(chan res, len(jobs))
		start := time.Now()
		for _, j := range jobs {
			j := j
			go func() {
				f, out := d.runOne(ctx, j.cfg, j.file)
				nm := j.cfg.Name
				if j.filtered {
					nm += "+filter"
				}
				ch <- res{nm, f, out, time.Since(start).Seconds(), j.filtered}
			}()
		}
		var outputs []string
		for range jobs {
			r := <-ch
			outputs = append(outputs, fmt.Sprintf("%s: %s", r.name, r.first))
			if r.first == "unsat" {
				o.Status, o.Solver, o.Time = "proved", r.name, r.dt
				cancel()
				return true
			}
			if r.first == "sat" && !r.filtered {
				o.Status, o.Solver, o.Time = "refuted", r.name, r.dt
				o.Output = r.out
				cancel()
				return true
			}
		}
		o.Status = "unknown"
		o.Time = time.Since(start).Seconds()
		o.Output = strings.Join(outputs, "; ")
		return false
	}
	t := d.TimeoutS
	if o.Canary {
		t = 2
	}
	if try(t, d.Seed) {
		return
	}
	if d.Retry && !o.Canary {
		try(d.TimeoutS*3, d.Seed+1)
	}
}
