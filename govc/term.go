package main

// SMT terms: hash-consed trees with light simplification. Printing shares
// large closed subterms through define-fun.

import (
	"fmt"
	"math/big"
	"sort"
	"strings"
)

type Sort string

const (
	SInt  Sort = "Int"
	SBool Sort = "Bool"
	SReal Sort = "Real"
	SStr  Sort = "Str" // uninterpreted string sort
)

func SArr(idx, el Sort) Sort { return Sort("(Array " + string(idx) + " " + string(el) + ")") }

// arrElem returns element sort of an array sort.
func arrParts(s Sort) (Sort, Sort) {
	str := string(s)
	if !strings.HasPrefix(str, "(Array ") {
		panic("not an array sort: " + str)
	}
	body := str[len("(Array ") : len(str)-1]
	// split first sort
	depth := 0
	for i := 0; i < len(body); i++ {
		switch body[i] {
		case '(':
			depth++
		case ')':
			depth--
		case ' ':
			if depth == 0 {
				return Sort(body[:i]), Sort(body[i+1:])
			}
		}
	}
	panic("bad array sort " + str)
}

type Term struct {
	op    string // operator or symbol name or literal
	args  []*Term
	sort  Sort
	id    int
	bound bool // mentions a bound variable
	size  int
	// for quantifiers
	bvars []*Term
	pats  [][]*Term
	// kind: 0 app/sym, 1 int literal, 2 quantifier
	kind int
}

var (
	termTab  = map[string]*Term{}
	termNext = 1
	symDecls = map[string]*Term{}  // free symbols
	funDecls = map[string]string{} // name -> declaration text
	funOrder []string
)

func resetTerms() {
	termTab = map[string]*Term{}
	symDecls = map[string]*Term{}
	funDecls = map[string]string{}
	funOrder = nil
	recFuns = map[string]*RecFun{}
	recOrder = nil
	termNext = 1
}

func intern(t *Term) *Term {
	var sb strings.Builder
	sb.WriteString(t.op)
	sb.WriteByte('|')
	sb.WriteString(string(t.sort))
	for _, a := range t.args {
		fmt.Fprintf(&sb, " %d", a.id)
	}
	if t.kind == 2 {
		sb.WriteString(" Q")
		for _, v := range t.bvars {
			fmt.Fprintf(&sb, " %d", v.id)
		}
		for _, p := range t.pats {
			sb.WriteString(" P")
			for _, x := range p {
				fmt.Fprintf(&sb, " %d", x.id)
			}
		}
	}
	k := sb.String()
	if x, ok := termTab[k]; ok {
		return x
	}
	t.id = termNext
	termNext++
	t.size = 1
	for _, a := range t.args {
		t.size += a.size
		if a.bound {
			t.bound = true
		}
	}
	termTab[k] = t
	return t
}

// Sym declares (or returns) a free constant symbol.
var symSafe = strings.NewReplacer("[", "<", "]", ">", "{", "<", "}", ">", " ", "_", ";", "_", ",", "_", "(", "<", ")", ">", "|", "_", "\\", "_", "\"", "_")

func Sym(name string, s Sort) *Term {
	name = symSafe.Replace(name)
	t := intern(&Term{op: name, sort: s})
	if _, ok := symDecls[name]; !ok {
		symDecls[name] = t
	}
	return t
}

var freshCtr = map[string]int{}

func Fresh(prefix string, s Sort) *Term {
	freshCtr[prefix]++
	return Sym(fmt.Sprintf("%s!%d", sanitize(prefix), freshCtr[prefix]), s)
}

func sanitize(s string) string {
	var sb strings.Builder
	for _, r := range s {
		switch {
		case r >= 'a' && r <= 'z', r >= 'A' && r <= 'Z', r >= '0' && r <= '9', r == '_', r == '$', r == '!', r == '.', r == '#':
			sb.WriteRune(r)
		case r == '*':
			sb.WriteString("ptr_")
		case r == '[':
			sb.WriteString("sl_")
		case r == ']':
		default:
			sb.WriteRune('_')
		}
	}
	return sb.String()
}

// BVar creates a bound variable (unique name).
var bvarCtr int

// bvarScope, when set, makes bound-variable names deterministic (scope-local
// counter), so that re-expanding the same specification in the same state
// yields the identical (hash-consed) term.
var bvarScope string
var bvarScopeCtr int

func BVar(name string, s Sort) *Term {
	var nm string
	if bvarScope != "" {
		bvarScopeCtr++
		nm = fmt.Sprintf("%s?%s.%d", sanitize(name), bvarScope, bvarScopeCtr)
	} else {
		bvarCtr++
		nm = fmt.Sprintf("%s?%d", sanitize(name), bvarCtr)
	}
	t := intern(&Term{op: nm, sort: s})
	t.bound = true
	return t
}

func IntLit(n int64) *Term { return BigLit(big.NewInt(n)) }

func BigLit(n *big.Int) *Term {
	var s string
	if n.Sign() < 0 {
		s = "(- " + new(big.Int).Neg(n).String() + ")"
	} else {
		s = n.String()
	}
	return intern(&Term{op: s, sort: SInt, kind: 1})
}

func RealLit(s string) *Term { return intern(&Term{op: s, sort: SReal, kind: 1}) }

func (t *Term) isIntLit() (*big.Int, bool) {
	if t.kind != 1 || t.sort != SInt {
		return nil, false
	}
	s := t.op
	neg := false
	if strings.HasPrefix(s, "(- ") {
		neg = true
		s = s[3 : len(s)-1]
	}
	n, ok := new(big.Int).SetString(s, 10)
	if !ok {
		return nil, false
	}
	if neg {
		n.Neg(n)
	}
	return n, true
}

var (
	True  = intern(&Term{op: "true", sort: SBool})
	False = intern(&Term{op: "false", sort: SBool})
)

func initConsts() {
	True = intern(&Term{op: "true", sort: SBool})
	False = intern(&Term{op: "false", sort: SBool})
}

func BoolLit(b bool) *Term {
	if b {
		return True
	}
	return False
}

func App(op string, s Sort, args ...*Term) *Term {
	return intern(&Term{op: op, sort: s, args: args})
}

// RecFun is a (possibly recursive) defined function.
type RecFun struct {
	Name string
	Vars []*Term
	Ret  Sort
	Body *Term
	Rec  bool // self-recursive: declared uninterpreted, unfolded once per ground application
}

var recFuns = map[string]*RecFun{}
var recOrder []string

func DefineRecFun(name string, vars []*Term, ret Sort, body *Term) {
	if _, ok := recFuns[name]; !ok {
		recOrder = append(recOrder, name)
	}
	rf := &RecFun{Name: name, Vars: vars, Ret: ret, Body: body}
	rf.Rec = mentionsOp(body, name)
	recFuns[name] = rf
}

func mentionsOp(t *Term, op string) bool {
	seen := map[int]bool{}
	var rec func(t *Term) bool
	rec = func(t *Term) bool {
		if seen[t.id] {
			return false
		}
		seen[t.id] = true
		if t.kind == 0 && t.op == op && len(t.args) > 0 {
			return true
		}
		for _, a := range t.args {
			if rec(a) {
				return true
			}
		}
		return false
	}
	return rec(t)
}

// unfoldInstances returns, for every ground application f(t) of a recursive
// defined function in the roots, the instance f(t) = body[t] (one level).
func unfoldInstances(roots []*Term) []*Term {
	seen := map[int]bool{}
	var out []*Term
	var rec func(t *Term)
	rec = func(t *Term) {
		if seen[t.id] {
			return
		}
		seen[t.id] = true
		if t.kind == 0 && len(t.args) > 0 && !t.bound {
			if rf, ok := recFuns[t.op]; ok && rf.Rec {
				m := map[int]*Term{}
				for i, v := range rf.Vars {
					m[v.id] = t.args[i]
				}
				out = append(out, Eq(t, Subst(rf.Body, m)))
			}
		}
		for _, a := range t.args {
			rec(a)
		}
	}
	for _, r := range roots {
		rec(r)
	}
	return out
}

// DeclareFun registers an uninterpreted function.
func DeclareFun(name string, args []Sort, res Sort) {
	if _, ok := funDecls[name]; ok {
		return
	}
	var as []string
	for _, a := range args {
		as = append(as, string(a))
	}
	funDecls[name] = fmt.Sprintf("(declare-fun %s (%s) %s)", name, strings.Join(as, " "), res)
	funOrder = append(funOrder, name)
}

func Not(a *Term) *Term {
	if a == True {
		return False
	}
	if a == False {
		return True
	}
	if a.op == "not" && a.kind == 0 && len(a.args) == 1 {
		return a.args[0]
	}
	return App("not", SBool, a)
}

func And(as ...*Term) *Term {
	var out []*Term
	seen := map[int]bool{}
	for _, a := range as {
		if a == True {
			continue
		}
		if a == False {
			return False
		}
		if a.op == "and" && a.kind == 0 {
			for _, x := range a.args {
				if !seen[x.id] {
					seen[x.id] = true
					out = append(out, x)
				}
			}
			continue
		}
		if !seen[a.id] {
			seen[a.id] = true
			out = append(out, a)
		}
	}
	switch len(out) {
	case 0:
		return True
	case 1:
		return out[0]
	}
	return App("and", SBool, out...)
}

func Or(as ...*Term) *Term {
	var out []*Term
	seen := map[int]bool{}
	for _, a := range as {
		if a == False {
			continue
		}
		if a == True {
			return True
		}
		if a.op == "or" && a.kind == 0 {
			for _, x := range a.args {
				if !seen[x.id] {
					seen[x.id] = true
					out = append(out, x)
				}
			}
			continue
		}
		if !seen[a.id] {
			seen[a.id] = true
			out = append(out, a)
		}
	}
	switch len(out) {
	case 0:
		return False
	case 1:
		return out[0]
	}
	return App("or", SBool, out...)
}

func Implies(a, b *Term) *Term {
	if a == True {
		return b
	}
	if a == False || b == True {
		return True
	}
	if b == False {
		return Not(a)
	}
	return App("=>", SBool, a, b)
}

func Iff(a, b *Term) *Term { return Eq(a, b) }

func Eq(a, b *Term) *Term {
	if a == b {
		return True
	}
	if a.sort != b.sort {
		panic(fmt.Sprintf("Eq sort mismatch: %s:%s vs %s:%s", a, a.sort, b, b.sort))
	}
	if x, ok := a.isIntLit(); ok {
		if y, ok := b.isIntLit(); ok {
			return BoolLit(x.Cmp(y) == 0)
		}
	}
	if a.sort == SBool {
		if a == True {
			return b
		}
		if b == True {
			return a
		}
		if a == False {
			return Not(b)
		}
		if b == False {
			return Not(a)
		}
	}
	if a.id > b.id {
		a, b = b, a
	}
	return App("=", SBool, a, b)
}

func Neq(a, b *Term) *Term { return Not(Eq(a, b)) }

func Ite(c, a, b *Term) *Term {
	if c == True {
		return a
	}
	if c == False {
		return b
	}
	if a == b {
		return a
	}
	if a.sort != b.sort {
		panic(fmt.Sprintf("Ite sort mismatch: %s:%s vs %s:%s", a, a.sort, b, b.sort))
	}
	if a.sort == SBool {
		if a == True && b == False {
			return c
		}
		if a == False && b == True {
			return Not(c)
		}
	}
	if a.sort == SInt {
		// factor a common base out of the branches: ite(c, x+k, x) = x + ite(c, k, 0)
		if a.kind == 0 && a.op == "+" && len(a.args) == 2 && a.args[0] == b {
			return Add(b, App("ite", SInt, c, a.args[1], IntLit(0)))
		}
		if b.kind == 0 && b.op == "+" && len(b.args) == 2 && b.args[0] == a {
			return Add(a, App("ite", SInt, c, IntLit(0), b.args[1]))
		}
		if a.kind == 0 && a.op == "+" && b.kind == 0 && b.op == "+" && len(a.args) == 2 && len(b.args) == 2 && a.args[0] == b.args[0] {
			return Add(a.args[0], App("ite", SInt, c, a.args[1], b.args[1]))
		}
	}
	return App("ite", a.sort, c, a, b)
}

func arith(op string, a, b *Term) *Term {
	s := a.sort
	if a.sort != b.sort {
		if a.sort == SReal && b.sort == SInt {
			b = ToReal(b)
		} else if a.sort == SInt && b.sort == SReal {
			a = ToReal(a)
			s = SReal
		}
	}
	x, okx := a.isIntLit()
	y, oky := b.isIntLit()
	if okx && oky {
		switch op {
		case "+":
			return BigLit(new(big.Int).Add(x, y))
		case "-":
			return BigLit(new(big.Int).Sub(x, y))
		case "*":
			return BigLit(new(big.Int).Mul(x, y))
		}
	}
	switch op {
	case "+":
		if okx && x.Sign() == 0 {
			return b
		}
		if oky && y.Sign() == 0 {
			return a
		}
	case "-":
		if oky && y.Sign() == 0 {
			return a
		}
	case "*":
		if okx && x.Cmp(big.NewInt(1)) == 0 {
			return b
		}
		if oky && y.Cmp(big.NewInt(1)) == 0 {
			return a
		}
	}
	return App(op, s, a, b)
}

func Add(a, b *Term) *Term { return arith("+", a, b) }
func Sub(a, b *Term) *Term { return arith("-", a, b) }
func Mul(a, b *Term) *Term { return arith("*", a, b) }
func Neg(a *Term) *Term {
	if x, ok := a.isIntLit(); ok {
		return BigLit(new(big.Int).Neg(x))
	}
	return App("-", a.sort, a)
}

// Go truncated division and remainder on mathematical ints.
func TDiv(a, b *Term) *Term {
	x, okx := a.isIntLit()
	y, oky := b.isIntLit()
	if okx && oky && y.Sign() != 0 {
		return BigLit(new(big.Int).Quo(x, y))
	}
	if oky && y.Sign() > 0 {
		// a >= 0 ? a div b : -((-a) div b)
		return Ite(Ge(a, IntLit(0)), App("div", SInt, a, b), Neg(App("div", SInt, Neg(a), b)))
	}
	absA := Ite(Ge(a, IntLit(0)), a, Neg(a))
	absB := Ite(Ge(b, IntLit(0)), b, Neg(b))
	q := App("div", SInt, absA, absB)
	return Ite(Eq(Ge(a, IntLit(0)), Ge(b, IntLit(0))), q, Neg(q))
}

func TMod(a, b *Term) *Term {
	x, okx := a.isIntLit()
	y, oky := b.isIntLit()
	if okx && oky && y.Sign() != 0 {
		return BigLit(new(big.Int).Rem(x, y))
	}
	if oky && y.Sign() > 0 {
		return Ite(Ge(a, IntLit(0)), App("mod", SInt, a, b), Neg(App("mod", SInt, Neg(a), b)))
	}
	absA := Ite(Ge(a, IntLit(0)), a, Neg(a))
	absB := Ite(Ge(b, IntLit(0)), b, Neg(b))
	r := App("mod", SInt, absA, absB)
	return Ite(Ge(a, IntLit(0)), r, Neg(r))
}

// Euclidean (SMT) div/mod for non-negative operands.
func EDiv(a, b *Term) *Term { return App("div", SInt, a, b) }
func EMod(a, b *Term) *Term {
	x, okx := a.isIntLit()
	y, oky := b.isIntLit()
	if okx && oky && y.Sign() > 0 {
		return BigLit(new(big.Int).Mod(x, y))
	}
	return App("mod", SInt, a, b)
}

func cmp(op string, a, b *Term) *Term {
	if a.sort != b.sort {
		if a.sort == SReal && b.sort == SInt {
			b = ToReal(b)
		} else if a.sort == SInt && b.sort == SReal {
			a = ToReal(a)
		}
	}
	x, okx := a.isIntLit()
	y, oky := b.isIntLit()
	if okx && oky {
		c := x.Cmp(y)
		switch op {
		case "<":
			return BoolLit(c < 0)
		case "<=":
			return BoolLit(c <= 0)
		case ">":
			return BoolLit(c > 0)
		case ">=":
			return BoolLit(c >= 0)
		}
	}
	if a == b {
		return BoolLit(op == "<=" || op == ">=")
	}
	return App(op, SBool, a, b)
}

func Lt(a, b *Term) *Term { return cmp("<", a, b) }
func Le(a, b *Term) *Term { return cmp("<=", a, b) }
func Gt(a, b *Term) *Term { return cmp(">", a, b) }
func Ge(a, b *Term) *Term { return cmp(">=", a, b) }

func ToReal(a *Term) *Term {
	if a.sort == SReal {
		return a
	}
	if x, ok := a.isIntLit(); ok {
		if x.Sign() < 0 {
			return RealLit("(- " + new(big.Int).Neg(x).String() + ".0)")
		}
		return RealLit(x.String() + ".0")
	}
	return App("to_real", SReal, a)
}

// Select with select-over-store simplification when indices are syntactically
// equal or distinct literals.
func Select(a, i *Term) *Term {
	_, el := arrParts(a.sort)
	for a.op == "store" && a.kind == 0 {
		if a.args[1] == i {
			return a.args[2]
		}
		x, okx := a.args[1].isIntLit()
		y, oky := i.isIntLit()
		if okx && oky && x.Cmp(y) != 0 {
			a = a.args[0]
			continue
		}
		break
	}
	return App("select", el, a, i)
}

func Store(a, i, v *Term) *Term {
	_, el := arrParts(a.sort)
	if v.sort != el {
		panic(fmt.Sprintf("Store sort mismatch: array %s elem %s value %s:%s", a.sort, el, v, v.sort))
	}
	if a.op == "store" && a.kind == 0 && a.args[1] == i {
		a = a.args[0]
	}
	return App("store", a.sort, a, i, v)
}

func Forall(vars []*Term, body *Term, pats ...[]*Term) *Term {
	return quant("forall", vars, body, pats)
}
func Exists(vars []*Term, body *Term, pats ...[]*Term) *Term {
	return quant("exists", vars, body, pats)
}

// validPattern: E-matching patterns may not contain boolean connectives or ite.
func validPattern(t *Term) bool {
	seen := map[int]bool{}
	var rec func(t *Term) bool
	rec = func(t *Term) bool {
		if seen[t.id] {
			return true
		}
		seen[t.id] = true
		if t.kind == 2 {
			return false
		}
		if t.kind == 0 {
			switch t.op {
			case "ite", "and", "or", "not", "=>", "=", "<", "<=", ">", ">=", "distinct":
				return false
			}
		}
		for _, a := range t.args {
			if !rec(a) {
				return false
			}
		}
		return true
	}
	return rec(t)
}

func quant(q string, vars []*Term, body *Term, pats [][]*Term) *Term {
	if body == True || body == False || len(vars) == 0 {
		return body
	}
	var good [][]*Term
	for _, p := range pats {
		ok := len(p) > 0
		for _, x := range p {
			if !validPattern(x) {
				ok = false
			}
		}
		if ok {
			good = append(good, p)
		}
	}
	pats = good
	t := &Term{op: q, sort: SBool, args: []*Term{body}, bvars: vars, pats: pats, kind: 2}
	r := intern(t)
	// bound-ness: closed if all bound vars in body are among vars (approximation: we
	// recompute by free-variable scan)
	r.bound = len(freeBound(r)) > 0
	return r
}

func freeBound(t *Term) map[int]*Term {
	out := map[int]*Term{}
	var walk func(t *Term, bound map[int]bool)
	seen := map[int]bool{}
	walk = func(t *Term, bound map[int]bool) {
		if !t.bound && t.kind != 2 {
			return
		}
		if t.kind == 2 {
			nb := map[int]bool{}
			for k := range bound {
				nb[k] = true
			}
			for _, v := range t.bvars {
				nb[v.id] = true
			}
			walk(t.args[0], nb)
			for _, p := range t.pats {
				for _, x := range p {
					walk(x, nb)
				}
			}
			return
		}
		if len(t.args) == 0 {
			if strings.Contains(t.op, "?") && !bound[t.id] {
				out[t.id] = t
			}
			return
		}
		if len(bound) == 0 {
			if seen[t.id] {
				return
			}
			seen[t.id] = true
		}
		for _, a := range t.args {
			walk(a, bound)
		}
	}
	walk(t, map[int]bool{})
	return out
}

// substMemo is Subst with a caller-provided memo table (shared across many terms).
func substMemo(t *Term, m map[int]*Term, memo map[int]*Term) *Term {
	return substWith(t, m, memo)
}

// Subst replaces terms (by id) inside t.
func Subst(t *Term, m map[int]*Term) *Term {
	return substWith(t, m, map[int]*Term{})
}

func substWith(t *Term, m map[int]*Term, memo map[int]*Term) *Term {
	var rec func(t *Term) *Term
	rec = func(t *Term) *Term {
		if r, ok := m[t.id]; ok {
			return r
		}
		if len(t.args) == 0 {
			return t
		}
		if r, ok := memo[t.id]; ok {
			return r
		}
		changed := false
		na := make([]*Term, len(t.args))
		for i, a := range t.args {
			na[i] = rec(a)
			if na[i] != a {
				changed = true
			}
		}
		var r *Term
		if t.kind == 2 {
			var np [][]*Term
			for _, p := range t.pats {
				var q []*Term
				for _, x := range p {
					y := rec(x)
					if y != x {
						changed = true
					}
					q = append(q, y)
				}
				np = append(np, q)
			}
			if !changed {
				r = t
			} else {
				r = quant(t.op, t.bvars, na[0], np)
			}
		} else if !changed {
			r = t
		} else {
			r = rebuild(t, na)
		}
		memo[t.id] = r
		return r
	}
	return rec(t)
}

func rebuild(t *Term, na []*Term) *Term {
	switch t.op {
	case "and":
		return And(na...)
	case "or":
		return Or(na...)
	case "not":
		return Not(na[0])
	case "=>":
		return Implies(na[0], na[1])
	case "=":
		return Eq(na[0], na[1])
	case "ite":
		return Ite(na[0], na[1], na[2])
	case "select":
		return Select(na[0], na[1])
	case "store":
		return Store(na[0], na[1], na[2])
	case "+", "*":
		if len(na) == 2 {
			return arith(t.op, na[0], na[1])
		}
	case "-":
		if len(na) == 2 {
			return arith("-", na[0], na[1])
		}
		return Neg(na[0])
	case "<", "<=", ">", ">=":
		return cmp(t.op, na[0], na[1])
	}
	return App(t.op, t.sort, na...)
}

func (t *Term) String() string {
	var sb strings.Builder
	printTerm(&sb, t, nil)
	return sb.String()
}

func printTerm(sb *strings.Builder, t *Term, names map[int]string) {
	if names != nil {
		if n, ok := names[t.id]; ok {
			sb.WriteString(n)
			return
		}
	}
	if t.kind == 2 {
		sb.WriteString("(")
		sb.WriteString(t.op)
		sb.WriteString(" (")
		for i, v := range t.bvars {
			if i > 0 {
				sb.WriteByte(' ')
			}
			fmt.Fprintf(sb, "(%s %s)", v.op, v.sort)
		}
		sb.WriteString(") ")
		if len(t.pats) > 0 {
			sb.WriteString("(! ")
		}
		printTerm(sb, t.args[0], names)
		if len(t.pats) > 0 {
			for _, p := range t.pats {
				sb.WriteString(" :pattern (")
				for i, x := range p {
					if i > 0 {
						sb.WriteByte(' ')
					}
					printTerm(sb, x, names)
				}
				sb.WriteString(")")
			}
			sb.WriteString(")")
		}
		sb.WriteString(")")
		return
	}
	if len(t.args) == 0 {
		sb.WriteString(t.op)
		return
	}
	sb.WriteByte('(')
	sb.WriteString(t.op)
	for _, a := range t.args {
		sb.WriteByte(' ')
		printTerm(sb, a, names)
	}
	sb.WriteByte(')')
}

// Script builds an SMT-LIB script checking validity of (facts => goal).
type Script struct {
	Axioms []*Term
	Facts  []*Term
	Goal   *Term
}

func (s *Script) Render(negateGoal bool) string {
	var roots []*Term
	roots = append(roots, s.Axioms...)
	roots = append(roots, s.Facts...)
	if s.Goal != nil {
		roots = append(roots, s.Goal)
	}
	// defined (recursive) functions reachable from the roots: their bodies are scanned
	// for symbols but printed unshared
	recUsed := map[string]bool{}
	{
		seen := map[int]bool{}
		var scan func(t *Term)
		scan = func(t *Term) {
			if seen[t.id] {
				return
			}
			seen[t.id] = true
			if t.kind == 0 {
				if rf, ok := recFuns[t.op]; ok && !recUsed[t.op] {
					recUsed[t.op] = true
					if !rf.Rec {
						scan(rf.Body)
					}
				}
			}
			for _, a := range t.args {
				scan(a)
			}
			if t.kind == 2 {
				for _, p := range t.pats {
					for _, x := range p {
						scan(x)
					}
				}
			}
		}
		for _, r := range roots {
			scan(r)
		}
	}
	var recBodies []*Term
	for _, n := range recOrder {
		if recUsed[n] && !recFuns[n].Rec {
			recBodies = append(recBodies, recFuns[n].Body)
		}
	}
	// count uses for sharing
	uses := map[int]int{}
	var order []*Term
	var visit func(t *Term)
	visit = func(t *Term) {
		uses[t.id]++
		if uses[t.id] > 1 {
			return
		}
		for _, a := range t.args {
			visit(a)
		}
		if t.kind == 2 {
			for _, p := range t.pats {
				for _, x := range p {
					visit(x)
				}
			}
		}
		order = append(order, t)
	}
	for _, r := range roots {
		visit(r)
	}
	for _, b := range recBodies {
		// force no sharing inside rec bodies: count them heavily after the fact
		visit(b)
	}
	syms := map[string]*Term{}
	funs := map[string]bool{}
	names := map[int]string{}
	var defs []string
	n := 0
	for _, t := range order {
		if len(t.args) == 0 && t.kind == 0 {
			if _, ok := symDecls[t.op]; ok {
				syms[t.op] = t
			}
			continue
		}
		if t.kind == 0 {
			if _, ok := funDecls[t.op]; ok {
				if rf, isDef := recFuns[t.op]; !isDef || rf.Rec {
					funs[t.op] = true
				}
			}
		}
		if !t.bound && t.kind != 1 && uses[t.id] > 1 && t.size > 3 {
			var sb strings.Builder
			printTerm(&sb, t, names)
			n++
			nm := fmt.Sprintf("d!%d", n)
			defs = append(defs, fmt.Sprintf("(define-fun %s () %s %s)", nm, t.sort, sb.String()))
			names[t.id] = nm
		}
	}
	var out strings.Builder
	out.WriteString("(set-option :produce-models true)\n(set-logic ALL)\n")
	out.WriteString("(declare-sort Str 0)\n")
	var sn []string
	for k := range syms {
		sn = append(sn, k)
	}
	sort.Strings(sn)
	for _, k := range sn {
		fmt.Fprintf(&out, "(declare-fun %s () %s)\n", k, syms[k].sort)
	}
	for _, f := range funOrder {
		if funs[f] {
			out.WriteString(funDecls[f])
			out.WriteByte('\n')
		}
	}
	for _, n := range recOrder {
		if !recUsed[n] {
			continue
		}
		rf := recFuns[n]
		if rf.Rec {
			continue
		}
		var ps []string
		for _, v := range rf.Vars {
			ps = append(ps, fmt.Sprintf("(%s %s)", v.op, v.sort))
		}
		var sb strings.Builder
		printTerm(&sb, rf.Body, nil)
		fmt.Fprintf(&out, "(define-fun %s (%s) %s %s)\n", n, strings.Join(ps, " "), rf.Ret, sb.String())
	}
	for _, d := range defs {
		out.WriteString(d)
		out.WriteByte('\n')
	}
	emit := func(t *Term, neg bool) {
		var sb strings.Builder
		printTerm(&sb, t, names)
		if neg {
			fmt.Fprintf(&out, "(assert (not %s))\n", sb.String())
		} else {
			fmt.Fprintf(&out, "(assert %s)\n", sb.String())
		}
	}
	for _, a := range s.Axioms {
		emit(a, false)
	}
	for _, f := range s.Facts {
		emit(f, false)
	}
	if s.Goal != nil {
		emit(s.Goal, negateGoal)
	}
	out.WriteString("(check-sat)\n")
	return out.String()
}
