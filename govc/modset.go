package main

// Syntactic over-approximation of what a statement can modify: local
// variables, heap arrays (per field / element type / map type), allocation.

import (
	"go/ast"
	"go/token"
	"go/types"
	"strings"
)

func (ex *Exec) modsetOf(nodes ...ast.Node) *ModSet {
	m := newModSet()
	for _, n := range nodes {
		if n == nil || isNilNode(n) {
			continue
		}
		ex.modWalk(m, n, 0)
	}
	return m
}

func isNilNode(n ast.Node) bool {
	switch x := n.(type) {
	case *ast.BlockStmt:
		return x == nil
	case ast.Stmt:
		return x == nil
	case ast.Expr:
		return x == nil
	}
	return false
}

func (ex *Exec) modFieldHeaps(m *ModSet, structT types.Type, field string) {
	ex.modFieldHeapsAt(m, structT, field, nil)
}

func (ex *Exec) modFieldHeapsAt(m *ModSet, structT types.Type, field string, base ast.Expr) {
	f := findField(structT, field)
	if f == nil {
		return
	}
	for _, c := range flatten(f.Type()) {
		name := fieldHeapName(structT, field, c)
		markRefHolding(name, c, false)
		m.heaps[name] = SArr(SInt, c.Sort)
		if base != nil {
			m.locs[name] = append(m.locs[name], base)
		} else {
			m.whole[name] = true
		}
	}
}

func (ex *Exec) modStructHeaps(m *ModSet, t types.Type) {
	st, ok := t.Underlying().(*types.Struct)
	if !ok || isOpaqueStruct(t) {
		for _, c := range flatten(t) {
			name := "B$" + typeKey(t) + c.Path
			markRefHolding(name, c, false)
			m.heaps[name] = SArr(SInt, c.Sort)
		}
		return
	}
	for i := 0; i < st.NumFields(); i++ {
		ex.modFieldHeaps(m, t, st.Field(i).Name())
	}
}

func (ex *Exec) modElemHeaps(m *ModSet, et types.Type) { ex.modElemHeapsAt(m, et, nil) }

func (ex *Exec) modElemHeapsAt(m *ModSet, et types.Type, base ast.Expr) {
	for _, c := range flatten(et) {
		name := elemHeapName(et, c)
		markRefHolding(name, c, true)
		m.heaps[name] = SArr(SInt, SArr(SInt, c.Sort))
		if base != nil {
			m.locs[name] = append(m.locs[name], base)
		} else {
			m.whole[name] = true
		}
	}
}

func (ex *Exec) modMapHeaps(m *ModSet, mt types.Type) { ex.modMapHeapsAt(m, mt, nil) }

func (ex *Exec) modMapHeapsAt(m *ModSet, mt types.Type, base ast.Expr) {
	mm := mt.Underlying().(*types.Map)
	ks := mapKeySort(mt)
	add := func(name string, s Sort) {
		m.heaps[name] = s
		if base != nil {
			m.locs[name] = append(m.locs[name], base)
		} else {
			m.whole[name] = true
		}
	}
	add(mapHeapBase(mt)+"$dom", SArr(SInt, SArr(ks, SBool)))
	for _, c := range flatten(mm.Elem()) {
		name := mapHeapBase(mt) + "$val" + c.Path
		markRefHolding(name, c, true)
		add(name, SArr(SInt, SArr(ks, c.Sort)))
	}
}

func (ex *Exec) modLHS(m *ModSet, l ast.Expr) {
	switch x := unparen(l).(type) {
	case *ast.Ident:
		if o, ok := ex.P.Info.Uses[x].(*types.Var); ok {
			if ex.boxed[o] {
				ex.modStructHeaps(m, o.Type())
			} else {
				m.vars[o] = true
			}
		} else if o, ok := ex.P.Info.Defs[x].(*types.Var); ok {
			if ex.boxed[o] {
				ex.modStructHeaps(m, o.Type())
				m.alloc = true
			}
			m.vars[o] = true
		}
	case *ast.SelectorExpr:
		sel, ok := ex.P.Info.Selections[x]
		if !ok {
			return
		}
		// xs[i].f with xs a slice of structs: only the components of f
		if ix, ok := unparen(x.X).(*ast.IndexExpr); ok {
			if sl, ok := ex.typeOf(ix.X).Underlying().(*types.Slice); ok {
				if off, n, ok := compRange(sl.Elem(), sel.Index()); ok {
					cs := flatten(sl.Elem())
					for k := off; k < off+n; k++ {
						name := elemHeapName(sl.Elem(), cs[k])
						markRefHolding(name, cs[k], true)
						m.heaps[name] = SArr(SInt, SArr(SInt, cs[k].Sort))
						m.locs[name] = append(m.locs[name], ix.X)
					}
					return
				}
			}
		}
		// direct p.f with p a pointer-valued expression
		if len(sel.Index()) == 1 {
			if p, ok := ex.typeOf(x.X).Underlying().(*types.Pointer); ok {
				if stt, ok := p.Elem().Underlying().(*types.Struct); ok {
					ex.modFieldHeapsAt(m, p.Elem(), stt.Field(sel.Index()[0]).Name(), x.X)
					return
				}
			}
		}
		// find the struct that owns the last field, and whether access goes through a pointer
		t := ex.typeOf(x.X)
		viaPtr := false
		path := sel.Index()
		for i, idx := range path {
			if p, ok := t.Underlying().(*types.Pointer); ok {
				t = p.Elem()
				viaPtr = true
			}
			stt, ok := t.Underlying().(*types.Struct)
			if !ok {
				return
			}
			if i == len(path)-1 {
				if viaPtr {
					// store into heap field of the pointee struct (or an enclosing value field of it)
					ex.modFieldHeaps(m, t, stt.Field(idx).Name())
				}
				break
			}
			t = stt.Field(idx).Type()
			if _, isP := t.Underlying().(*types.Pointer); isP {
				viaPtr = true
			} else if viaPtr {
				// value field inside a heap struct: the containing field's heaps change
				// handled by the read-modify-write of the outer field
			}
		}
		if viaPtr {
			// conservative: every struct on the path that lives in the heap
			ex.modPathHeaps(m, ex.typeOf(x.X), path)
		} else {
			ex.modLHS(m, x.X)
		}
	case *ast.IndexExpr:
		xt := ex.typeOf(x.X)
		switch u := xt.Underlying().(type) {
		case *types.Slice:
			ex.modElemHeapsAt(m, u.Elem(), x.X)
		case *types.Map:
			ex.modMapHeapsAt(m, xt, x.X)
		case *types.Array:
			ex.modLHS(m, x.X)
		case *types.Pointer:
			ex.modStructHeaps(m, u.Elem())
		}
	case *ast.StarExpr:
		if p, ok := ex.typeOf(x.X).Underlying().(*types.Pointer); ok {
			ex.modStructHeaps(m, p.Elem())
		}
	}
}

func (ex *Exec) modPathHeaps(m *ModSet, t types.Type, path []int) {
	for _, idx := range path {
		ptr := false
		if p, ok := t.Underlying().(*types.Pointer); ok {
			t = p.Elem()
			ptr = true
		}
		stt, ok := t.Underlying().(*types.Struct)
		if !ok {
			return
		}
		_ = ptr
		ex.modFieldHeaps(m, t, stt.Field(idx).Name())
		t = stt.Field(idx).Type()
	}
}

func (ex *Exec) modWalk(m *ModSet, n ast.Node, depth int) {
	ast.Inspect(n, func(nd ast.Node) bool {
		switch x := nd.(type) {
		case *ast.AssignStmt:
			for _, l := range x.Lhs {
				ex.modLHS(m, l)
			}
		case *ast.IncDecStmt:
			ex.modLHS(m, x.X)
		case *ast.RangeStmt:
			if x.Key != nil {
				ex.modLHS(m, x.Key)
			}
			if x.Value != nil {
				ex.modLHS(m, x.Value)
			}
		case *ast.DeclStmt:
			if gd, ok := x.Decl.(*ast.GenDecl); ok && gd.Tok == token.VAR {
				for _, sp := range gd.Specs {
					if vs, ok := sp.(*ast.ValueSpec); ok {
						for _, nm := range vs.Names {
							ex.modLHS(m, nm)
						}
					}
				}
			}
		case *ast.UnaryExpr:
			if x.Op == token.AND {
				if cl, ok := unparen(x.X).(*ast.CompositeLit); ok {
					m.alloc = true
					ex.modStructHeaps(m, ex.typeOf(cl))
				}
			}
		case *ast.CompositeLit:
			t := ex.typeOf(x)
			if t == nil {
				return true
			}
			switch u := t.Underlying().(type) {
			case *types.Slice:
				m.alloc = true
				ex.modElemHeaps(m, u.Elem())
				if p, ok := u.Elem().Underlying().(*types.Pointer); ok {
					// elided &T{} elements
					for _, el := range x.Elts {
						if c2, ok := el.(*ast.CompositeLit); ok && c2.Type == nil {
							ex.modStructHeaps(m, p.Elem())
						}
					}
				}
			case *types.Map:
				m.alloc = true
				ex.modMapHeaps(m, t)
			case *types.Pointer:
				m.alloc = true
				ex.modStructHeaps(m, u.Elem())
			}
		case *ast.CallExpr:
			ex.modCall(m, x, depth)
		}
		return true
	})
}

func (ex *Exec) modCall(m *ModSet, call *ast.CallExpr, depth int) {
	// conversions
	if tv, ok := ex.P.Info.Types[call.Fun]; ok && tv.IsType() {
		if len(call.Args) == 1 {
			if sl, ok := tv.Type.Underlying().(*types.Slice); ok && isString(ex.typeOf(call.Args[0])) {
				m.alloc = true
				ex.modElemHeaps(m, sl.Elem())
			}
		}
		return
	}
	if id, ok := unparen(call.Fun).(*ast.Ident); ok {
		if b, ok := ex.P.Info.Uses[id].(*types.Builtin); ok {
			switch b.Name() {
			case "append", "copy":
				m.alloc = true
				if sl, ok := ex.typeOf(call.Args[0]).Underlying().(*types.Slice); ok {
					ex.modElemHeaps(m, sl.Elem())
				}
			case "make":
				m.alloc = true
				t := ex.typeOf(call.Args[0])
				switch u := t.Underlying().(type) {
				case *types.Slice:
					ex.modElemHeaps(m, u.Elem())
				case *types.Map:
					ex.modMapHeaps(m, t)
				}
			case "new":
				m.alloc = true
				ex.modStructHeaps(m, ex.typeOf(call.Args[0]))
			case "delete":
				ex.modMapHeapsAt(m, ex.typeOf(call.Args[0]), call.Args[0])
			}
			return
		}
	}
	callee := ex.staticCallee(call)
	if callee != nil {
		if fi, ok := ex.P.FuncByObj[callee]; ok {
			m.addAll(ex.funcModSet(fi, depth))
			return
		}
		// extern
		if c := ex.externContract(callee); c != nil {
			m.alloc = true
			for _, a := range c.Assigns {
				ex.modAssignsTarget(m, a, callee, call)
			}
			if externClass(callee) == "deserialiser" {
				ex.modExternDefault(m, callee, call)
			}
			return
		}
		m.alloc = true
		ex.modExternDefault(m, callee, call)
		return
	}
	// dynamic call: interface method in package, or closure
	if sel, ok := unparen(call.Fun).(*ast.SelectorExpr); ok {
		if s, ok := ex.P.Info.Selections[sel]; ok && s.Kind() == types.MethodVal {
			if isIface(s.Recv()) {
				for _, fi := range ex.implementations(s.Recv(), s.Obj().Name()) {
					m.addAll(ex.funcModSet(fi, depth))
				}
				m.alloc = true
				return
			}
		}
	}
	m.alloc = true
}

// Library functions without a contract, by what they may write through their arguments
// (assumptions, listed in the evidence):
//
//	pure        do not write through arguments (strings, bytes, strconv, unicode, fmt, log, time,
//	            regexp, sort handled separately, the read side of encoding/binary, ...)
//	byte writers write the elements of their slice arguments
//	deserialisers (encoding/xml Decode, DecodeElement, Unmarshal) write everything reachable
//	            by type from their pointer arguments
//	anything else: slice arguments' elements and everything reachable from pointers to package types
var externPurePrefixes = []string{"strings.", "(*strings.", "bytes.", "strconv.", "unicode.", "unicode/utf8.", "fmt.", "log.", "time.", "(time.", "(*time.",
	"(*regexp.", "regexp.", "sort.", "errors.", "math.", "math/bits.", "path/filepath.", "os.", "(*os.File).Close", "context.",
	"(encoding/binary.bigEndian).Uint", "(encoding/binary.littleEndian).Uint", "(golang.org/x/text/unicode/norm.Form).",
	"github.com/asticode/go-astikit.", "(*github.com/asticode/go-astikit.", "(github.com/asticode/go-astits.", "(*github.com/asticode/go-astits.", "github.com/asticode/go-astits.",
	"golang.org/x/net/html.", "(*golang.org/x/net/html.", "(golang.org/x/net/html.", "(*bufio.Scanner).", "bufio.", "(*encoding/xml.Encoder).", "encoding/xml.New", "encoding/xml.Escape",
	"(*encoding/xml.Decoder).Token", "(encoding/xml.TokenReader).Token", "io.", "(io.", "(*bytes.", "(error).Error", "html.", "(*encoding/xml.Decoder).Skip"}

var externDeserialisers = []string{"(*encoding/xml.Decoder).Decode", "(*encoding/xml.Decoder).DecodeElement", "encoding/xml.Unmarshal", "encoding/json.Unmarshal", "(*encoding/json.Decoder).Decode"}

func externClass(callee *types.Func) string {
	full := callee.FullName()
	for _, d := range externDeserialisers {
		if full == d {
			return "deserialiser"
		}
	}
	if strings.Contains(full, "encoding/binary.") && strings.Contains(full, ").Put") {
		return "bytewriter"
	}
	for _, p := range externPurePrefixes {
		if strings.HasPrefix(full, p) {
			return "pure"
		}
	}
	return "unknown"
}

func (ex *Exec) modExternDefault(m *ModSet, callee *types.Func, call *ast.CallExpr) {
	switch externClass(callee) {
	case "pure":
		return
	case "bytewriter":
		for _, a := range call.Args {
			if sl, ok := ex.typeOf(a).Underlying().(*types.Slice); ok {
				ex.modElemHeapsAt(m, sl.Elem(), a)
			}
		}
	case "deserialiser":
		m.alloc = true
		tmp := newModSet()
		for _, a := range call.Args {
			ex.modReachable(tmp, ex.typeOf(a), map[string]bool{}, true)
		}
		for h, srt := range tmp.heaps {
			m.heaps[h] = srt
			m.whole[h] = true
			m.noFrame[h] = true
		}
	default:
		m.alloc = true
		for _, a := range call.Args {
			t := ex.typeOf(a)
			if sl, ok := t.Underlying().(*types.Slice); ok {
				ex.modElemHeapsAt(m, sl.Elem(), a)
				continue
			}
			ex.modReachable(m, t, map[string]bool{}, false)
		}
	}
}

// modReachable: every heap array a callee holding a value of type t could write (by type).
// top: the value itself is a pointer handed to the callee (its pointee is written).
func (ex *Exec) modReachable(m *ModSet, t types.Type, seen map[string]bool, top bool) {
	if t == nil {
		return
	}
	k := types.TypeString(t, nil)
	if seen[k] {
		return
	}
	seen[k] = true
	switch u := t.Underlying().(type) {
	case *types.Pointer:
		el := u.Elem()
		if isOpaqueStruct(el) {
			return
		}
		if _, isStruct := el.Underlying().(*types.Struct); isStruct {
			ex.modStructHeaps(m, el)
		} else {
			for _, c := range flatten(el) {
				name := "B$" + typeKey(el) + c.Path
				markRefHolding(name, c, false)
				m.heaps[name] = SArr(SInt, c.Sort)
				m.whole[name] = true
			}
		}
		ex.modReachable(m, el, seen, false)
	case *types.Struct:
		if isOpaqueStruct(t) {
			return
		}
		for i := 0; i < u.NumFields(); i++ {
			ex.modReachable(m, u.Field(i).Type(), seen, false)
		}
	case *types.Slice:
		ex.modElemHeaps(m, u.Elem())
		ex.modReachable(m, u.Elem(), seen, false)
	case *types.Array:
		ex.modReachable(m, u.Elem(), seen, false)
	case *types.Map:
		ex.modMapHeaps(m, t)
		ex.modReachable(m, u.Elem(), seen, false)
	}
}

func (ex *Exec) funcModSet(fi *FuncInfo, depth int) *ModSet {
	if ms, ok := ex.modMemo[fi]; ok {
		return ms
	}
	ms := newModSet()
	ex.modMemo[fi] = ms // cut recursion
	if fi.Contract != nil && fi.Contract.HasAssign {
		ms.alloc = true
		for _, a := range fi.Contract.Assigns {
			ex.modAssignsTarget(ms, a, fi.Obj, nil)
		}
		return ms
	}
	if depth > 8 {
		ms.alloc = true
		return ms
	}
	inner := newModSet()
	ex.modWalk(inner, fi.Body, depth+1)
	// only heap effects and allocation escape a call
	for k, s := range inner.heaps {
		ms.heaps[k] = s
	}
	ms.alloc = inner.alloc
	// captured variables assigned by closures
	if fi.Lit != nil {
		for v := range inner.vars {
			ms.vars[v] = true
		}
	}
	return ms
}

// modAssignsTarget maps an assigns clause target to heap names.
func (ex *Exec) modAssignsTarget(m *ModSet, a *SExpr, callee *types.Func, call *ast.CallExpr) {
	names := ex.assignsHeapNames(a, callee)
	for n, s := range names {
		m.heaps[n] = s
	}
}
