package main

import (
	"flag"
	"fmt"
	"os"
	"path/filepath"
	"runtime"
	"runtime/debug"
	"strings"
	"time"
)

var (
	repoDir  = "/repo"
	verifDir = "/verif"
)

func main() {
	if len(os.Args) < 2 {
		fmt.Fprintln(os.Stderr, "usage: govc verify|check|list ...")
		os.Exit(2)
	}
	if d := os.Getenv("GOVC_REPO"); d != "" {
		repoDir = d
	}
	if d := os.Getenv("GOVC_VERIF"); d != "" {
		verifDir = d
	}
	switch os.Args[1] {
	case "verify":
		cmdVerify(os.Args[2:])
	case "check":
		os.Exit(cmdCheck(os.Args[2:]))
	case "modset":
		os.Exit(cmdModset(os.Args[2:]))
	case "extlist":
		os.Exit(cmdExtList())
	case "sweep":
		os.Exit(cmdSweep(os.Args[2:]))
	case "survey":
		p, err := loadAll(nil)
		if err != nil {
			fmt.Fprintln(os.Stderr, err)
			os.Exit(2)
		}
		nu := 0
		for _, k := range p.sortedFuncKeys() {
			resetEngine()
			ex := newExec(p, p.Funcs[k])
			ex.noHoudini = true
			var res *FuncResult
			func() {
				defer func() {
					if r := recover(); r != nil {
						res = &FuncResult{Key: k, Undecided: fmt.Sprintf("PANIC: %v", r)}
						if os.Getenv("GOVC_TRACE") != "" {
							debug.PrintStack()
						}
					}
				}()
				res = ex.verifyFunc()
			}()
			if res.Undecided != "" {
				nu++
				fmt.Printf("UNDECIDED %-45s %s\n", k, res.Undecided)
			} else {
				fmt.Printf("ok        %-45s %d obligations\n", k, len(res.Obls))
			}
		}
		fmt.Println("undecided:", nu)
	case "list":
		p, err := loadAll(nil)
		if err != nil {
			fmt.Fprintln(os.Stderr, err)
			os.Exit(2)
		}
		for _, k := range p.sortedFuncKeys() {
			c := ""
			if p.Funcs[k].Contract != nil {
				c = " [contract]"
			}
			fmt.Println(k + c)
		}
	default:
		fmt.Fprintln(os.Stderr, "unknown command", os.Args[1])
		os.Exit(2)
	}
}

func loadAll(overlay map[string][]byte) (*Program, error) {
	p, err := loadProgram(repoDir, overlay)
	if err != nil {
		return nil, err
	}
	matches, _ := filepath.Glob(filepath.Join(verifDir, "contracts", "*.gvc"))
	for _, m := range matches {
		if err := p.loadSpecFile(m); err != nil {
			return nil, err
		}
	}
	p.TableFacts = builtinTableFacts()
	return p, nil
}

func resetEngine() {
	resetTerms()
	initConsts()
	flatMemo = map[string][]Comp{}
	heapSorts = map[string]Sort{}
	heapCompInfo = map[string]heapInfo{}
	heapAxiomDone = map[string]bool{}
	axiomsFor = map[string][]*Term{}
	strLits = map[string]*Term{}
	strLitVal = map[string]string{}
	freshCtr = map[string]int{}
	typeTags = map[string]int64{}
	bvarCtr = 0
	opaqueBV = map[string]*Term{}
	opaquePred = map[int]string{}
}

// verifyOne runs the generator on one function (fresh term universe) and discharges.
func verifyOne(p *Program, key string, d *Discharger, safetyOnly bool) *FuncResult {
	resetEngine()
	var ex *Exec
	var res *FuncResult
	if strings.HasPrefix(key, "harness:") {
		h, ok := p.Harnesses[strings.TrimPrefix(key, "harness:")]
		if !ok {
			return &FuncResult{Key: key, Undecided: "no such harness"}
		}
		ex = newExec(p, nil)
		res = ex.verifyHarness(h)
	} else {
		fi, ok := p.Funcs[key]
		if !ok {
			return &FuncResult{Key: key, Undecided: "no such function"}
		}
		ex = newExec(p, fi)
		ex.safetyOnly = safetyOnly
		res = ex.verifyFunc()
	}
	if res.Undecided != "" {
		return res
	}
	dd := *d
	dd.WorkDir = filepath.Join(d.WorkDir, sanitizeFile(key))
	os.RemoveAll(dd.WorkDir)
	dd.dischargeAll(res.Obls, ex.globalFacts)
	return res
}

func cmdVerify(args []string) {
	fs := flag.NewFlagSet("verify", flag.ExitOnError)
	timeout := fs.Int("t", 20, "solver timeout (s)")
	verbose := fs.Bool("v", false, "verbose")
	fs.Parse(args)
	p, err := loadAll(nil)
	if err != nil {
		fmt.Fprintln(os.Stderr, err)
		os.Exit(2)
	}
	d := &Discharger{WorkDir: filepath.Join(verifDir, "work", "vc"), TimeoutS: *timeout, Seed: 1, Par: runtime.NumCPU() / 2, Retry: false}
	for _, key := range fs.Args() {
		t0 := time.Now()
		res := verifyOne(p, key, d, false)
		if res.Undecided != "" {
			fmt.Printf("UNDECIDED function=%s reason=%s\n", key, res.Undecided)
			continue
		}
		np, nf := 0, 0
		retReach := false
		for _, o := range res.Obls {
			if o.Canary && o.Status != "proved" && strings.Contains(o.Name, "#canary[ret") {
				retReach = true
			}
		}
		for _, o := range res.Obls {
			ok := o.Status == "proved"
			if o.Canary {
				ok = o.Status != "proved"
				if strings.Contains(o.Name, "#canary[ret") {
					ok = retReach // infeasible individual paths are fine as long as some return is reachable
				}
			}
			if ok {
				np++
			} else {
				nf++
			}
			if !ok || *verbose {
				fmt.Printf("  %-8s %-7s %6.2fs %s  (%s) %s\n", o.Status, o.Solver, o.Time, o.Name, o.Pos, trunc(o.Output, 100))
			}
		}
		fmt.Printf("%s: %d obligations, %d ok, %d not ok (%.1fs)\n", key, len(res.Obls), np, nf, time.Since(t0).Seconds())
		if *verbose {
			for _, n := range res.Notes {
				fmt.Println("  note:", n)
			}
			for _, n := range res.Externs {
				fmt.Println("  extern:", n)
			}
		}
	}
}

func trunc(s string, n int) string {
	s = strings.ReplaceAll(s, "\n", " ")
	if len(s) > n {
		return s[:n]
	}
	return s
}
