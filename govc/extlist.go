package main

import (
	"fmt"
	"go/ast"
	"go/types"
	"sort"
	"strings"
)

// cmdExtList prints the library functions called by the package that have no extern contract,
// with the argument types through which they could reach package memory.
func cmdExtList() int {
	p, err := loadAll(nil)
	if err != nil {
		fmt.Println(err)
		return 2
	}
	ex := newExec(p, nil)
	seen := map[string]bool{}
	for _, f := range p.Pkg.Syntax {
		if strings.HasSuffix(p.Fset.Position(f.Pos()).Filename, "_test.go") {
			continue
		}
		ast.Inspect(f, func(n ast.Node) bool {
			call, ok := n.(*ast.CallExpr)
			if !ok {
				return true
			}
			callee := ex.staticCallee(call)
			if callee == nil {
				return true
			}
			if _, in := p.FuncByObj[callee]; in {
				return true
			}
			if ex.externContract(callee) != nil {
				return true
			}
			var ts []string
			for _, a := range call.Args {
				t := ex.typeOf(a)
				if t == nil {
					continue
				}
				if refHolding(t, map[types.Type]bool{}) {
					ts = append(ts, types.TypeString(t, func(p *types.Package) string { return p.Name() }))
				}
			}
			if sel, ok := unparen(call.Fun).(*ast.SelectorExpr); ok {
				if s, ok := p.Info.Selections[sel]; ok {
					if refHolding(s.Recv(), map[types.Type]bool{}) {
						ts = append([]string{"recv " + types.TypeString(s.Recv(), func(p *types.Package) string { return p.Name() })}, ts...)
					}
				}
			}
			if len(ts) > 0 {
				seen[callee.FullName()+"  <- "+strings.Join(ts, ", ")] = true
			}
			return true
		})
	}
	var ks []string
	for k := range seen {
		ks = append(ks, k)
	}
	sort.Strings(ks)
	for _, k := range ks {
		fmt.Println(k)
	}
	return 0
}

// refHolding: values of the type can reach mutable memory (pointers, slices, maps, interfaces).
func refHolding(t types.Type, seen map[types.Type]bool) bool {
	if seen[t] {
		return false
	}
	seen[t] = true
	switch u := t.Underlying().(type) {
	case *types.Pointer, *types.Slice, *types.Map, *types.Interface, *types.Signature, *types.Chan:
		return true
	case *types.Struct:
		for i := 0; i < u.NumFields(); i++ {
			if refHolding(u.Field(i).Type(), seen) {
				return true
			}
		}
	case *types.Array:
		return refHolding(u.Elem(), seen)
	}
	return false
}
