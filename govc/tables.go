package main

// Table facts: properties of package-level constants tables obtained from the
// initialiser expressions of the working tree (BiMap key/value types, regular
// expression group structure). They are recomputed on every run.

import (
	"go/ast"
	"go/constant"
	"go/types"
	"regexp"
	"regexp/syntax"
)

type bimapFact struct {
	keyT, valT types.Type // nil when not uniform
	keyInts    []int64    // all keys, when they are integer constants
	valInts    []int64    // all values, when they are integer constants
}

// globalInit returns the initialiser expression of a package-level variable of the verified package.
func (ex *Exec) globalInit(v *types.Var) ast.Expr {
	for _, f := range ex.P.Pkg.Syntax {
		for _, d := range f.Decls {
			gd, ok := d.(*ast.GenDecl)
			if !ok {
				continue
			}
			for _, sp := range gd.Specs {
				vs, ok := sp.(*ast.ValueSpec)
				if !ok {
					continue
				}
				for i, n := range vs.Names {
					if ex.P.Info.Defs[n] == v && i < len(vs.Values) {
						return vs.Values[i]
					}
				}
			}
		}
	}
	return nil
}

// bimapFactsOf analyses `astikit.NewBiMap().Set(k, v).Set(k, v)...`.
func (ex *Exec) bimapFactsOf(e ast.Expr) (bimapFact, bool) {
	var ks, vs []types.Type
	var kInts, vInts []int64
	kAll, vAll := true, true
	constInt := func(a ast.Expr) (int64, bool) {
		tv, ok := ex.P.Info.Types[a]
		if !ok || tv.Value == nil || tv.Value.Kind() != constant.Int {
			return 0, false
		}
		return constant.Int64Val(tv.Value)
	}
	cur := unparen(e)
	for {
		call, ok := cur.(*ast.CallExpr)
		if !ok {
			return bimapFact{}, false
		}
		if ex.isPkgFunc(call.Fun, "github.com/asticode/go-astikit", "NewBiMap") {
			break
		}
		sel, ok := unparen(call.Fun).(*ast.SelectorExpr)
		if !ok || sel.Sel.Name != "Set" || len(call.Args) != 2 {
			return bimapFact{}, false
		}
		ks = append(ks, ex.typeOf(call.Args[0]))
		vs = append(vs, ex.typeOf(call.Args[1]))
		if n, ok := constInt(call.Args[0]); ok {
			kInts = append(kInts, n)
		} else {
			kAll = false
		}
		if n, ok := constInt(call.Args[1]); ok {
			vInts = append(vInts, n)
		} else {
			vAll = false
		}
		cur = unparen(sel.X)
	}
	uniform := func(ts []types.Type) types.Type {
		if len(ts) == 0 {
			return nil
		}
		for _, t := range ts[1:] {
			if !types.Identical(t, ts[0]) {
				return nil
			}
		}
		return types.Default(ts[0])
	}
	f := bimapFact{keyT: uniform(ks), valT: uniform(vs)}
	if kAll {
		f.keyInts = kInts
	}
	if vAll {
		f.valInts = vInts
	}
	return f, true
}

// bimapReceiverFacts: facts for X.Get / X.GetInverse when X is a package-level BiMap.
func (ex *Exec) bimapReceiverFacts(recvExpr ast.Expr) (bimapFact, bool) {
	id, ok := unparen(recvExpr).(*ast.Ident)
	if !ok {
		return bimapFact{}, false
	}
	v, ok := ex.P.Info.Uses[id].(*types.Var)
	if !ok || v.Pkg() == nil || v.Parent() != v.Pkg().Scope() {
		return bimapFact{}, false
	}
	init := ex.globalInit(v)
	if init == nil {
		return bimapFact{}, false
	}
	return ex.bimapFactsOf(init)
}

type regexFact struct {
	n      int    // number of capture groups
	always []bool // group g (1..n) participates in every match; index 0 = whole match (true)
	minLen int    // minimal length of a match
}

// regexFactsOf compiles the constant pattern of `regexp.MustCompile(pattern)`.
func (ex *Exec) regexFactsOf(recvExpr ast.Expr) (regexFact, bool) {
	id, ok := unparen(recvExpr).(*ast.Ident)
	if !ok {
		return regexFact{}, false
	}
	v, ok := ex.P.Info.Uses[id].(*types.Var)
	if !ok || v.Pkg() == nil || v.Parent() != v.Pkg().Scope() {
		return regexFact{}, false
	}
	init := ex.globalInit(v)
	call, ok := unparen(init).(*ast.CallExpr)
	if !ok || len(call.Args) != 1 || !ex.isPkgFunc(call.Fun, "regexp", "MustCompile") {
		return regexFact{}, false
	}
	tv, ok := ex.P.Info.Types[call.Args[0]]
	if !ok || tv.Value == nil || tv.Value.Kind() != constant.String {
		return regexFact{}, false
	}
	pat := constant.StringVal(tv.Value)
	re, err := regexp.Compile(pat)
	if err != nil {
		return regexFact{}, false
	}
	tree, err := syntax.Parse(pat, syntax.Perl)
	if err != nil {
		return regexFact{}, false
	}
	f := regexFact{n: re.NumSubexp(), always: make([]bool, re.NumSubexp()+1)}
	f.always[0] = true
	var walk func(r *syntax.Regexp, sure bool)
	walk = func(r *syntax.Regexp, sure bool) {
		switch r.Op {
		case syntax.OpCapture:
			if sure && r.Cap <= f.n {
				f.always[r.Cap] = true
			}
			walk(r.Sub[0], sure)
		case syntax.OpConcat:
			for _, s := range r.Sub {
				walk(s, sure)
			}
		case syntax.OpPlus:
			walk(r.Sub[0], sure)
		case syntax.OpRepeat:
			walk(r.Sub[0], sure && r.Min >= 1)
		case syntax.OpStar, syntax.OpQuest, syntax.OpAlternate:
			for _, s := range r.Sub {
				walk(s, false)
			}
		}
	}
	walk(tree, true)
	f.minLen = regexMinLen(tree.Simplify())
	return f, true
}

// regexMinLen: a lower bound on the length (in bytes) of any match.
func regexMinLen(r *syntax.Regexp) int {
	switch r.Op {
	case syntax.OpLiteral:
		n := 0
		for _, c := range r.Rune {
			_ = c
			n++
		}
		return n
	case syntax.OpCharClass, syntax.OpAnyCharNotNL, syntax.OpAnyChar:
		return 1
	case syntax.OpCapture:
		return regexMinLen(r.Sub[0])
	case syntax.OpConcat:
		n := 0
		for _, s := range r.Sub {
			n += regexMinLen(s)
		}
		return n
	case syntax.OpAlternate:
		m := -1
		for _, s := range r.Sub {
			if k := regexMinLen(s); m < 0 || k < m {
				m = k
			}
		}
		if m < 0 {
			return 0
		}
		return m
	case syntax.OpPlus:
		return regexMinLen(r.Sub[0])
	case syntax.OpRepeat:
		return r.Min * regexMinLen(r.Sub[0])
	}
	return 0
}

// nonNilGlobalExpr: e is `&T{...}` or names a package-level pointer variable initialised so.
func (ex *Exec) nonNilGlobalExpr(e ast.Expr) bool {
	switch x := unparen(e).(type) {
	case *ast.UnaryExpr:
		if _, ok := unparen(x.X).(*ast.CompositeLit); ok && x.Op.String() == "&" {
			return true
		}
	case *ast.Ident:
		v, ok := ex.P.Info.Uses[x].(*types.Var)
		if !ok || v.Pkg() == nil || v.Parent() != v.Pkg().Scope() {
			return false
		}
		if init := ex.globalInit(v); init != nil {
			if u, ok := unparen(init).(*ast.UnaryExpr); ok && u.Op.String() == "&" {
				_, isLit := unparen(u.X).(*ast.CompositeLit)
				return isLit
			}
			// alias of another such variable (initialisation order follows the dependency)
			if id2, ok := unparen(init).(*ast.Ident); ok && id2.Name != x.Name {
				ex.aliasDepth++
				defer func() { ex.aliasDepth-- }()
				return ex.aliasDepth < 8 && ex.nonNilGlobalExpr(id2)
			}
		}
	}
	return false
}

// mapTypeExclusive: no statement of the package creates or writes a map whose heap arrays are
// those of mt, apart from the composite literal `within` (checked syntactically on every run).
func (ex *Exec) mapTypeExclusive(mt types.Type, within ast.Node) bool {
	base := mapHeapBase(mt)
	same := func(t types.Type) bool {
		if t == nil {
			return false
		}
		if _, ok := t.Underlying().(*types.Map); !ok {
			return false
		}
		return mapHeapBase(t) == base
	}
	ok := true
	for _, f := range ex.P.Pkg.Syntax {
		ast.Inspect(f, func(n ast.Node) bool {
			if n == nil {
				return false
			}
			if n == within {
				return false
			}
			switch x := n.(type) {
			case *ast.CompositeLit:
				if tv, k := ex.P.Info.Types[x]; k && same(tv.Type) {
					ok = false
				}
			case *ast.CallExpr:
				if id, k := unparen(x.Fun).(*ast.Ident); k && (id.Name == "make" || id.Name == "delete") && len(x.Args) > 0 {
					if _, isB := ex.P.Info.Uses[id].(*types.Builtin); isB {
						if tv, k := ex.P.Info.Types[x.Args[0]]; k && same(tv.Type) {
							ok = false
						}
					}
				}
			case *ast.AssignStmt:
				for _, l := range x.Lhs {
					if ix, k := unparen(l).(*ast.IndexExpr); k {
						if tv, k := ex.P.Info.Types[ix.X]; k && same(tv.Type) {
							ok = false
						}
					}
				}
			case *ast.IncDecStmt:
				if ix, k := unparen(x.X).(*ast.IndexExpr); k {
					if tv, k := ex.P.Info.Types[ix.X]; k && same(tv.Type) {
						ok = false
					}
				}
			}
			return true
		})
	}
	return ok
}

// tableLeafFacts: a package-level map (possibly of maps) of struct literals whose innermost map
// type is used by nothing else in the package: every present entry has the pointer fields that
// all literal entries set to the address of a package-level literal non-nil. The fact is about
// the heap arrays at function entry (nothing in the package writes them).
func (ex *Exec) tableLeafFacts(o *types.Var) []*Term {
	init := ex.globalInit(o)
	cl, ok := unparen(init).(*ast.CompositeLit)
	if !ok {
		return nil
	}
	var leaves []*ast.CompositeLit
	var inner types.Type
	bad := false
	var walk func(c *ast.CompositeLit)
	walk = func(c *ast.CompositeLit) {
		tv, ok := ex.P.Info.Types[c]
		if !ok {
			bad = true
			return
		}
		switch u := tv.Type.Underlying().(type) {
		case *types.Map:
			if _, isStruct := u.Elem().Underlying().(*types.Struct); isStruct {
				if inner != nil && !types.Identical(inner, tv.Type) {
					bad = true
				}
				inner = tv.Type
			}
			for _, el := range c.Elts {
				kv, ok := el.(*ast.KeyValueExpr)
				if !ok {
					bad = true
					return
				}
				sub, ok := unparen(kv.Value).(*ast.CompositeLit)
				if !ok {
					bad = true
					return
				}
				walk(sub)
			}
		case *types.Struct:
			leaves = append(leaves, c)
		default:
			bad = true
		}
	}
	walk(cl)
	if bad || inner == nil || len(leaves) == 0 {
		return nil
	}
	if !ex.mapTypeExclusive(inner, cl) {
		return nil
	}
	st := inner.Underlying().(*types.Map).Elem().Underlying().(*types.Struct)
	var out []*Term
	mv := Val{T: inner, C: []*Term{IntLit(0)}}
	tmp := &State{vars: map[types.Object]Val{}, heap: map[string]*Term{}, ghost: map[string]Val{}}
	_, dom := tmp.mapDom(mv)
	for i := 0; i < st.NumFields(); i++ {
		f := st.Field(i)
		if _, isPtr := f.Type().Underlying().(*types.Pointer); !isPtr {
			continue
		}
		all := true
		for _, leaf := range leaves {
			found := false
			for _, el := range leaf.Elts {
				kv, ok := el.(*ast.KeyValueExpr)
				if !ok {
					continue
				}
				if id, ok := kv.Key.(*ast.Ident); ok && id.Name == f.Name() && ex.nonNilGlobalExpr(kv.Value) {
					found = true
				}
			}
			if !found {
				all = false
				break
			}
		}
		if !all {
			continue
		}
		for _, c := range flatten(inner.Underlying().(*types.Map).Elem()) {
			if c.Path != "."+f.Name() {
				continue
			}
			_, h := tmp.mapValHeap(mv, c)
			m := BVar("tm", SInt)
			k := BVar("tk", mapKeySort(inner))
			val := Select(Select(h, m), k)
			q := Forall([]*Term{m, k}, Implies(Select(Select(dom, m), k), Neq(val, IntLit(0))), []*Term{val})
			out = append(out, q)
			ex.assumedExt["table fact: every entry of "+o.Name()+" has a non-nil ."+f.Name()+" (read off its initialiser; no other statement of the package creates or writes a map of that type)"] = true
		}
	}
	return out
}

// arrayConstFacts: a package-level array of integer constants has exactly the listed elements.
func (ex *Exec) arrayConstFacts(o *types.Var, v Val) []*Term {
	at, ok := o.Type().Underlying().(*types.Array)
	if !ok || !isInteger(at.Elem()) || at.Len() > 128 || len(v.C) != 1 {
		return nil
	}
	cl, ok := unparen(ex.globalInit(o)).(*ast.CompositeLit)
	if !ok || int64(len(cl.Elts)) != at.Len() {
		return nil
	}
	var out []*Term
	var lo, hi int64
	for i, el := range cl.Elts {
		if _, keyed := el.(*ast.KeyValueExpr); keyed {
			return nil
		}
		tv, ok := ex.P.Info.Types[el]
		if !ok || tv.Value == nil || tv.Value.Kind() != constant.Int {
			return nil
		}
		n, ok := constant.Int64Val(tv.Value)
		if !ok {
			return nil
		}
		out = append(out, Eq(Select(v.C[0], IntLit(int64(i))), IntLit(n)))
		if i == 0 || n < lo {
			lo = n
		}
		if i == 0 || n > hi {
			hi = n
		}
	}
	if len(cl.Elts) > 0 {
		q := BVar("ti", SInt)
		el := Select(v.C[0], q)
		out = append(out, Forall([]*Term{q}, Implies(And(Le(IntLit(0), q), Lt(q, IntLit(at.Len()))), And(Le(IntLit(lo), el), Le(el, IntLit(hi)))), []*Term{el}))
	}
	return out
}

// bimapTableFacts: a package-level map whose values are BiMaps built by NewBiMap().Set(k, v)...
// chains with uniform key / value types, and whose map type nothing else in the package creates
// or writes: every present entry is a non-nil BiMap with those ghost type attributes.
func (ex *Exec) bimapTableFacts(o *types.Var) []*Term {
	mt, ok := o.Type().Underlying().(*types.Map)
	if !ok {
		return nil
	}
	pt, ok := mt.Elem().Underlying().(*types.Pointer)
	if !ok {
		return nil
	}
	if n, ok := pt.Elem().(*types.Named); !ok || n.Obj().Name() != "BiMap" {
		return nil
	}
	cl, ok := unparen(ex.globalInit(o)).(*ast.CompositeLit)
	if !ok || len(cl.Elts) == 0 {
		return nil
	}
	var keyT, valT types.Type
	for i, el := range cl.Elts {
		kv, ok := el.(*ast.KeyValueExpr)
		if !ok {
			return nil
		}
		f, ok := ex.bimapFactsOf(kv.Value)
		if !ok || f.keyT == nil || f.valT == nil {
			return nil
		}
		if i > 0 && (!types.Identical(keyT, f.keyT) || !types.Identical(valT, f.valT)) {
			return nil
		}
		keyT, valT = f.keyT, f.valT
	}
	if !ex.mapTypeExclusive(o.Type(), cl) {
		return nil
	}
	tmp := &State{vars: map[types.Object]Val{}, heap: map[string]*Term{}, ghost: map[string]Val{}}
	mv := Val{T: o.Type(), C: []*Term{IntLit(0)}}
	_, dom := tmp.mapDom(mv)
	cs := flatten(mt.Elem())
	_, h := tmp.mapValHeap(mv, cs[0])
	DeclareFun("bimapValTag", []Sort{SInt}, SInt)
	DeclareFun("bimapKeyTag", []Sort{SInt}, SInt)
	m := BVar("tm", SInt)
	k := BVar("tk", mapKeySort(o.Type()))
	val := Select(Select(h, m), k)
	ex.assumedExt["table fact: every entry of "+o.Name()+" is a non-nil BiMap from "+keyT.String()+" to "+valT.String()+" (read off its initialiser; no other statement of the package creates or writes a map of that type)"] = true
	return []*Term{Forall([]*Term{m, k}, Implies(Select(Select(dom, m), k),
		And(Neq(val, IntLit(0)), Eq(App("bimapValTag", SInt, val), typeTag(valT)), Eq(App("bimapKeyTag", SInt, val), typeTag(keyT)))), []*Term{val})}
}
