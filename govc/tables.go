package main

// Table facts: properties of package-level constants tables obtained from the
// initialiser expressions of the working tree (BiMap key/value types, regular
// expression group structure). They are recomputed on every run.

import (
	"go/ast"
	"go/constant"
	"go/types"
	"regexp"
	"regexp/syntax"
)

type bimapFact struct {
	keyT, valT types.Type // nil when not uniform
	keyInts    []int64    // all keys, when they are integer constants
	valInts    []int64    // all values, when they are integer constants
}

// globalInit returns the initialiser expression of a package-level variable of the verified package.
func (ex *Exec) globalInit(v *types.Var) ast.Expr {
	for _, f := range ex.P.Pkg.Syntax {
		for _, d := range f.Decls {
			gd, ok := d.(*ast.GenDecl)
			if !ok {
				continue
			}
			for _, sp := range gd.Specs {
				vs, ok := sp.(*ast.ValueSpec)
				if !ok {
					continue
				}
				for i, n := range vs.Names {
					if ex.P.Info.Defs[n] == v && i < len(vs.Values) {
						return vs.Values[i]
					}
				}
			}
		}
	}
	return nil
}

// bimapFactsOf analyses `astikit.NewBiMap().Set(k, v).Set(k, v)...`.
func (ex *Exec) bimapFactsOf(e ast.Expr) (bimapFact, bool) {
	var ks, vs []types.Type
	var kInts, vInts []int64
	kAll, vAll := true, true
	constInt := func(a ast.Expr) (int64, bool) {
		tv, ok := ex.P.Info.Types[a]
		if !ok || tv.Value == nil || tv.Value.Kind() != constant.Int {
			return 0, false
		}
		return constant.Int64Val(tv.Value)
	}
	cur := unparen(e)
	for {
		call, ok := cur.(*ast.CallExpr)
		if !ok {
			return bimapFact{}, false
		}
		if ex.isPkgFunc(call.Fun, "github.com/asticode/go-astikit", "NewBiMap") {
			break
		}
		sel, ok := unparen(call.Fun).(*ast.SelectorExpr)
		if !ok || sel.Sel.Name != "Set" || len(call.Args) != 2 {
			return bimapFact{}, false
		}
		ks = append(ks, ex.typeOf(call.Args[0]))
		vs = append(vs, ex.typeOf(call.Args[1]))
		if n, ok := constInt(call.Args[0]); ok {
			kInts = append(kInts, n)
		} else {
			kAll = false
		}
		if n, ok := constInt(call.Args[1]); ok {
			vInts = append(vInts, n)
		} else {
			vAll = false
		}
		cur = unparen(sel.X)
	}
	uniform := func(ts []types.Type) types.Type {
		if len(ts) == 0 {
			return nil
		}
		for _, t := range ts[1:] {
			if !types.Identical(t, ts[0]) {
				return nil
			}
		}
		return types.Default(ts[0])
	}
	f := bimapFact{keyT: uniform(ks), valT: uniform(vs)}
	if kAll {
		f.keyInts = kInts
	}
	if vAll {
		f.valInts = vInts
	}
	return f, true
}

// bimapReceiverFacts: facts for X.Get / X.GetInverse when X is a package-level BiMap.
func (ex *Exec) bimapReceiverFacts(recvExpr ast.Expr) (bimapFact, bool) {
	id, ok := unparen(recvExpr).(*ast.Ident)
	if !ok {
		return bimapFact{}, false
	}
	v, ok := ex.P.Info.Uses[id].(*types.Var)
	if !ok || v.Pkg() == nil || v.Parent() != v.Pkg().Scope() {
		return bimapFact{}, false
	}
	init := ex.globalInit(v)
	if init == nil {
		return bimapFact{}, false
	}
	return ex.bimapFactsOf(init)
}

type regexFact struct {
	n      int    // number of capture groups
	always []bool // group g (1..n) participates in every match; index 0 = whole match (true)
	minLen int    // minimal length of a match
}

// regexFactsOf compiles the constant pattern of `regexp.MustCompile(pattern)`.
func (ex *Exec) regexFactsOf(recvExpr ast.Expr) (regexFact, bool) {
	id, ok := unparen(recvExpr).(*ast.Ident)
	if !ok {
		return regexFact{}, false
	}
	v, ok := ex.P.Info.Uses[id].(*types.Var)
	if !ok || v.Pkg() == nil || v.Parent() != v.Pkg().Scope() {
		return regexFact{}, false
	}
	init := ex.globalInit(v)
	call, ok := unparen(init).(*ast.CallExpr)
	if !ok || len(call.Args) != 1 || !ex.isPkgFunc(call.Fun, "regexp", "MustCompile") {
		return regexFact{}, false
	}
	tv, ok := ex.P.Info.Types[call.Args[0]]
	if !ok || tv.Value == nil || tv.Value.Kind() != constant.String {
		return regexFact{}, false
	}
	pat := constant.StringVal(tv.Value)
	re, err := regexp.Compile(pat)
	if err != nil {
		return regexFact{}, false
	}
	tree, err := syntax.Parse(pat, syntax.Perl)
	if err != nil {
		return regexFact{}, false
	}
	f := regexFact{n: re.NumSubexp(), always: make([]bool, re.NumSubexp()+1)}
	f.always[0] = true
	var walk func(r *syntax.Regexp, sure bool)
	walk = func(r *syntax.Regexp, sure bool) {
		switch r.Op {
		case syntax.OpCapture:
			if sure && r.Cap <= f.n {
				f.always[r.Cap] = true
			}
			walk(r.Sub[0], sure)
		case syntax.OpConcat:
			for _, s := range r.Sub {
				walk(s, sure)
			}
		case syntax.OpPlus:
			walk(r.Sub[0], sure)
		case syntax.OpRepeat:
			walk(r.Sub[0], sure && r.Min >= 1)
		case syntax.OpStar, syntax.OpQuest, syntax.OpAlternate:
			for _, s := range r.Sub {
				walk(s, false)
			}
		}
	}
	walk(tree, true)
	f.minLen = regexMinLen(tree.Simplify())
	return f, true
}

// regexMinLen: a lower bound on the length (in bytes) of any match.
func regexMinLen(r *syntax.Regexp) int {
	switch r.Op {
	case syntax.OpLiteral:
		n := 0
		for _, c := range r.Rune {
			_ = c
			n++
		}
		return n
	case syntax.OpCharClass, syntax.OpAnyCharNotNL, syntax.OpAnyChar:
		return 1
	case syntax.OpCapture:
		return regexMinLen(r.Sub[0])
	case syntax.OpConcat:
		n := 0
		for _, s := range r.Sub {
			n += regexMinLen(s)
		}
		return n
	case syntax.OpAlternate:
		m := -1
		for _, s := range r.Sub {
			if k := regexMinLen(s); m < 0 || k < m {
				m = k
			}
		}
		if m < 0 {
			return 0
		}
		return m
	case syntax.OpPlus:
		return regexMinLen(r.Sub[0])
	case syntax.OpRepeat:
		return r.Min * regexMinLen(r.Sub[0])
	}
	return 0
}
