package main

// Statement execution: forward symbolic execution with state merging; loops
// are cut by invariants.

import (
	"fmt"
	"go/ast"
	"go/token"
	"go/types"
	"os"
	"path/filepath"
	"runtime"
	"sort"
	"strconv"
	"strings"
	"sync"
	"time"
)

type Obligation struct {
	Name   string
	Kind   string
	Func   string
	Pos    string
	Desc   string
	Facts  []*Term `json:"-"`
	Goal   *Term   `json:"-"`
	Axioms []*Term `json:"-"`
	Props  []string
	Auto   bool // auto-generated candidate (failure is not a violation)
	// results
	Status string // "proved", "refuted", "unknown"
	Solver string
	Time   float64
	Output string
	// expected to fail (canary)
	Canary bool
	File   string
	FileF  string // relevance-filtered variant of the script
	Size   int
	Known  bool
}

type Exec struct {
	P             *Program
	Fn            *FuncInfo
	Obls          []*Obligation
	pre           *State
	paramEnv      map[string]Val
	boxed         map[*types.Var]bool
	globalsSeen   map[string]bool
	aliasDepth    int
	handedMemo    []handedRef
	quickTimeout  int
	globalFacts   []*Term
	notes         map[string]bool
	floatModel    string
	mutCount      int
	inlineStack   []*FuncInfo
	loopOrd       map[ast.Stmt]int
	retOrd        map[*ast.ReturnStmt]int
	ghosts        map[string]*GhostInst
	fnAxioms      []*Term
	oblCount      map[string]int
	curFn         *FuncInfo
	callSeq       int
	lastGhost     map[string]map[string]*GhostInst // callee key -> ghost-out name -> instance (latest call)
	safetyOnly    bool
	textFun       string
	curProps      []string
	assumedExt    map[string]bool
	retStates     []retOut
	modMemo       map[*FuncInfo]*ModSet
	prepared      map[*FuncInfo]bool
	marks         map[string]*State
	frameProbe    bool
	kernelsUsed   map[string]bool
	houdiniFailed map[failKey]bool
	noHoudini     bool
	probeDepth    int
	autoInvs      []string
	houdiniSeq    int
	sentinels     []string
}

type retOut struct {
	st   *State
	site *ast.ReturnStmt
	vals []Val
	fn   *FuncInfo
}

func newExec(p *Program, fn *FuncInfo) *Exec {
	return &Exec{P: p, Fn: fn, boxed: map[*types.Var]bool{}, globalsSeen: map[string]bool{}, notes: map[string]bool{},
		loopOrd: map[ast.Stmt]int{}, retOrd: map[*ast.ReturnStmt]int{}, ghosts: map[string]*GhostInst{}, oblCount: map[string]int{},
		lastGhost: map[string]map[string]*GhostInst{}, assumedExt: map[string]bool{}, modMemo: map[*FuncInfo]*ModSet{}}
}

func (ex *Exec) note(s string) { ex.notes[s] = true }

func (ex *Exec) importedPkg(name string) *types.Package {
	for _, imp := range ex.P.Pkg.Types.Imports() {
		if imp.Name() == name {
			return imp
		}
	}
	// search transitive imports by name
	for _, ip := range ex.P.Pkg.Imports {
		if ip.Types != nil && ip.Types.Name() == name {
			return ip.Types
		}
	}
	return nil
}

func (ex *Exec) oblig(st *State, kind string, n ast.Node, desc string, cond *Term) {
	if cond == True {
		return
	}
	fn := ex.Fn.Key
	where := ""
	if ex.curFn != nil && ex.curFn != ex.Fn {
		where = "@" + ex.curFn.Key
	}
	base := fmt.Sprintf("%s%s#%s[%s]", fn, where, kind, normDesc(desc))
	ex.oblCount[base]++
	name := base
	if ex.oblCount[base] > 1 {
		name = fmt.Sprintf("%s#%d", base, ex.oblCount[base])
	}
	pos := ""
	if n != nil {
		pos = ex.P.pos(n)
	}
	o := &Obligation{Name: name, Kind: kind, Func: fn, Pos: pos, Desc: desc, Facts: append([]*Term(nil), st.facts...), Goal: cond, Props: ex.curProps}
	ex.Obls = append(ex.Obls, o)
	st.assume(cond)
}

func normDesc(s string) string {
	s = strings.Join(strings.Fields(s), "")
	if len(s) > 70 {
		s = s[:70]
	}
	return s
}

type Outcomes struct {
	falls []*State
	brk   []*State
	cont  []*State
}

var maxPaths = 6

func single(st *State) Outcomes { return Outcomes{falls: []*State{st}} }

func (ex *Exec) setVar(st *State, o *types.Var, v Val) {
	ex.mutCount++
	if ex.boxed[o] {
		if ref, ok := st.vars[o]; ok {
			st.storeStruct(ref.C[0], o.Type(), v)
			return
		}
	}
	st.vars[o] = v
}

func (ex *Exec) declVar(st *State, o *types.Var, v Val) {
	ex.mutCount++
	if ex.boxed[o] {
		ref := st.alloc()
		st.storeStruct(ref, o.Type(), v)
		st.vars[o] = scalar(types.NewPointer(o.Type()), ref)
		return
	}
	st.vars[o] = v
}

func (ex *Exec) execBlock(st *State, stmts []ast.Stmt) Outcomes {
	out := single(st)
	for _, s := range stmts {
		if len(out.falls) == 0 {
			break
		}
		_, isFor := s.(*ast.ForStmt)
		_, isRange := s.(*ast.RangeStmt)
		_, _ = isFor, isRange
		if len(out.falls) > maxPaths {
			out.falls = mergeClosest(out.falls, maxPaths)
		}
		var nf []*State
		for _, cur := range out.falls {
			o := ex.execStmt(cur, s)
			nf = append(nf, ex.splitPending(o.falls)...)
			out.brk = append(out.brk, ex.splitPending(o.brk)...)
			out.cont = append(out.cont, ex.splitPending(o.cont)...)
		}
		out.falls = nf
	}
	return out
}

func (ex *Exec) execStmt(st *State, s ast.Stmt) Outcomes {
	switch s := s.(type) {
	case *ast.BlockStmt:
		return ex.execBlock(st, s.List)
	case *ast.ExprStmt:
		if call, ok := s.X.(*ast.CallExpr); ok {
			if id, ok := call.Fun.(*ast.Ident); ok && id.Name == "panic" {
				if _, isB := ex.P.Info.Uses[id].(*types.Builtin); isB {
					ex.oblig(st, "panic", s, "panic reachable", False)
					return Outcomes{}
				}
			}
			ex.evalCall(st, call)
			return single(st)
		}
		ex.eval(st, s.X)
		return single(st)
	case *ast.AssignStmt:
		ex.execAssign(st, s)
		return single(st)
	case *ast.IncDecStmt:
		x := ex.eval(st, s.X)
		one := IntLit(1)
		var r Val
		if s.Tok == token.INC {
			r = ex.wrap(scalar(x.T, Add(x.term(), one)), x.T)
		} else {
			r = ex.wrap(scalar(x.T, Sub(x.term(), one)), x.T)
		}
		ex.assignTo(st, s.X, r)
		return single(st)
	case *ast.DeclStmt:
		gd := s.Decl.(*ast.GenDecl)
		for _, sp := range gd.Specs {
			vs, ok := sp.(*ast.ValueSpec)
			if !ok {
				continue
			}
			if len(vs.Values) == 1 && len(vs.Names) > 1 {
				vals := ex.evalMulti(st, vs.Values[0], len(vs.Names))
				for i, n := range vs.Names {
					if o, ok := ex.P.Info.Defs[n].(*types.Var); ok {
						ex.declVar(st, o, ex.coerce(st, n, vals[i], o.Type()))
					}
				}
				continue
			}
			for i, n := range vs.Names {
				o, ok := ex.P.Info.Defs[n].(*types.Var)
				if !ok {
					if i < len(vs.Values) {
						ex.eval(st, vs.Values[i])
					}
					continue
				}
				if i < len(vs.Values) {
					ex.declVar(st, o, ex.evalTyped(st, vs.Values[i], o.Type()))
				} else {
					ex.declVar(st, o, zeroVal(o.Type()))
				}
			}
		}
		return single(st)
	case *ast.IfStmt:
		return ex.execIf(st, s)
	case *ast.ForStmt:
		return ex.execFor(st, s)
	case *ast.RangeStmt:
		return ex.execRange(st, s)
	case *ast.SwitchStmt:
		return ex.execSwitch(st, s)
	case *ast.TypeSwitchStmt:
		return ex.execTypeSwitch(st, s)
	case *ast.ReturnStmt:
		ex.execReturn(st, s)
		return Outcomes{}
	case *ast.BranchStmt:
		if s.Label != nil {
			ex.unsupported(s, "labelled branch")
		}
		switch s.Tok {
		case token.BREAK:
			return Outcomes{brk: []*State{st}}
		case token.CONTINUE:
			return Outcomes{cont: []*State{st}}
		}
		ex.unsupported(s, "branch %s", s.Tok)
	case *ast.DeferStmt:
		// only `defer f.Close()`-style calls on locals: no effect on the verified state
		ex.note("defer " + ex.exprStr(s.Call) + " ignored")
		return single(st)
	case *ast.EmptyStmt:
		return single(st)
	case *ast.LabeledStmt:
		ex.unsupported(s, "label")
	case *ast.GoStmt, *ast.SelectStmt, *ast.SendStmt:
		ex.unsupported(s, "concurrency statement")
	}
	ex.unsupported(s, "statement %T", s)
	return Outcomes{}
}

// evalMulti evaluates an expression producing n values (call, comma-ok forms).
func (ex *Exec) evalMulti(st *State, e ast.Expr, n int) []Val {
	switch x := unparen(e).(type) {
	case *ast.CallExpr:
		vs := ex.evalCall(st, x)
		if len(vs) != n {
			ex.unsupported(e, "call yields %d values, %d expected", len(vs), n)
		}
		return vs
	case *ast.IndexExpr:
		if _, ok := ex.typeOf(x.X).Underlying().(*types.Map); ok && n == 2 {
			m := ex.eval(st, x.X)
			k := ex.eval(st, x.Index)
			key := ex.mapKey(st, m, k)
			v := st.mapGet(m, key)
			st.assumeAll(loadFacts(v))
			return []Val{v, boolVal(And(Neq(m.C[0], IntLit(0)), st.mapHas(m, key)))}
		}
	case *ast.TypeAssertExpr:
		if n == 2 {
			xv := ex.eval(st, x.X)
			return ex.typeAssert(st, x, xv, ex.typeOf(x.Type), true)
		}
	}
	ex.unsupported(e, "multi-value expression %T", e)
	return nil
}

func (ex *Exec) execAssign(st *State, s *ast.AssignStmt) {
	if s.Tok != token.ASSIGN && s.Tok != token.DEFINE {
		// op-assign
		var op token.Token
		switch s.Tok {
		case token.ADD_ASSIGN:
			op = token.ADD
		case token.SUB_ASSIGN:
			op = token.SUB
		case token.MUL_ASSIGN:
			op = token.MUL
		case token.QUO_ASSIGN:
			op = token.QUO
		case token.REM_ASSIGN:
			op = token.REM
		case token.AND_ASSIGN:
			op = token.AND
		case token.OR_ASSIGN:
			op = token.OR
		case token.XOR_ASSIGN:
			op = token.XOR
		case token.SHL_ASSIGN:
			op = token.SHL
		case token.SHR_ASSIGN:
			op = token.SHR
		case token.AND_NOT_ASSIGN:
			op = token.AND_NOT
		}
		x := ex.eval(st, s.Lhs[0])
		y := ex.eval(st, s.Rhs[0])
		r := ex.binop(st, s, op, x, y, ex.typeOf(s.Lhs[0]))
		ex.assignTo(st, s.Lhs[0], r)
		return
	}
	var vals []Val
	if len(s.Rhs) == 1 && len(s.Lhs) > 1 {
		vals = ex.evalMulti(st, s.Rhs[0], len(s.Lhs))
	} else {
		for i, r := range s.Rhs {
			var t types.Type
			if id, ok := s.Lhs[i].(*ast.Ident); ok && id.Name == "_" {
				t = nil
			} else {
				t = ex.lhsType(s.Lhs[i])
			}
			if t != nil {
				vals = append(vals, ex.evalTyped(st, r, t))
			} else {
				vals = append(vals, ex.eval(st, r))
			}
		}
	}
	for i, l := range s.Lhs {
		if id, ok := l.(*ast.Ident); ok {
			if id.Name == "_" {
				continue
			}
			if s.Tok == token.DEFINE {
				if o, ok := ex.P.Info.Defs[id].(*types.Var); ok {
					ex.declVar(st, o, ex.coerce(st, id, vals[i], o.Type()))
					continue
				}
			}
		}
		ex.assignTo(st, l, vals[i])
	}
}

func (ex *Exec) lhsType(l ast.Expr) types.Type {
	if id, ok := l.(*ast.Ident); ok {
		if o, ok := ex.P.Info.Defs[id].(*types.Var); ok {
			return o.Type()
		}
		if o, ok := ex.P.Info.Uses[id].(*types.Var); ok {
			return o.Type()
		}
		return nil
	}
	return ex.typeOf(l)
}

// globalRoot: the package-level variable a store target is rooted at (x.f, x[i], *x, x[i].f ...), or nil.
func (ex *Exec) globalRoot(e ast.Expr) *types.Var {
	for {
		switch x := unparen(e).(type) {
		case *ast.SelectorExpr:
			if _, ok := ex.P.Info.Selections[x]; !ok {
				// qualified identifier pkg.Var
				if v, ok := ex.P.Info.Uses[x.Sel].(*types.Var); ok && v.Pkg() != nil && v.Parent() == v.Pkg().Scope() {
					return v
				}
				return nil
			}
			e = x.X
		case *ast.IndexExpr:
			e = x.X
		case *ast.StarExpr:
			e = x.X
		case *ast.SliceExpr:
			e = x.X
		case *ast.Ident:
			if v, ok := ex.P.Info.Uses[x].(*types.Var); ok && v.Pkg() != nil && v.Parent() == v.Pkg().Scope() {
				return v
			}
			return nil
		default:
			return nil
		}
	}
}

// assignTo stores v into the location denoted by lhs.
func (ex *Exec) assignTo(st *State, lhs ast.Expr, v Val) {
	if _, isId := unparen(lhs).(*ast.Ident); !isId {
		ex.sharedObjectStore(st, lhs)
		if g := ex.globalRoot(lhs); g != nil {
			// C20: a store through a package-level variable (table entry, shared object) is shared mutable state
			ex.obligNoAssume(st, "global-write", lhs, "store into memory reached from package-level variable "+g.Name()+": "+ex.exprStr(lhs), False)
		}
	}
	switch l := unparen(lhs).(type) {
	case *ast.Ident:
		if l.Name == "_" {
			return
		}
		o, _ := ex.P.Info.Uses[l].(*types.Var)
		if o == nil {
			o, _ = ex.P.Info.Defs[l].(*types.Var)
		}
		if o == nil {
			ex.unsupported(l, "assignment to %s", l.Name)
		}
		if o.Pkg() != nil && o.Parent() == o.Pkg().Scope() {
			// not assumed afterwards: the rest of the function is still analysed
			ex.obligNoAssume(st, "global-write", l, "assignment to package-level variable "+l.Name, False)
			return
		}
		ex.setVar(st, o, ex.coerce(st, l, v, o.Type()))
	case *ast.SelectorExpr:
		sel, ok := ex.P.Info.Selections[l]
		if !ok {
			ex.obligNoAssume(st, "global-write", l, "assignment to package-level variable "+ex.exprStr(l), False)
			return
		}
		path := sel.Index()
		ft := sel.Type()
		v = ex.coerce(st, l, v, ft)
		ex.assignPath(st, l, l.X, path, v)
	case *ast.IndexExpr:
		xt := ex.typeOf(l.X)
		switch u := xt.Underlying().(type) {
		case *types.Slice:
			x := ex.eval(st, l.X)
			i := ex.eval(st, l.Index).term()
			p := sliceParts(x)
			ex.oblig(st, "index", l, ex.exprStr(l), And(Le(IntLit(0), i), Lt(i, p.len)))
			ex.mutCount++
			st.elemStore(x, i, ex.coerce(st, l, v, u.Elem()))
		case *types.Map:
			m := ex.eval(st, l.X)
			k := ex.eval(st, l.Index)
			ex.oblig(st, "nil-map-write", l, ex.exprStr(l), Neq(m.C[0], IntLit(0)))
			ex.mutCount++
			st.mapSet(m, ex.mapKey(st, m, k), ex.coerce(st, l, v, u.Elem()))
		case *types.Array:
			x := ex.eval(st, l.X)
			i := ex.eval(st, l.Index).term()
			ex.oblig(st, "index", l, ex.exprStr(l), And(Le(IntLit(0), i), Lt(i, IntLit(u.Len()))))
			v = ex.coerce(st, l, v, u.Elem())
			nx := Val{T: x.T, C: append([]*Term(nil), x.C...)}
			for k := range v.C {
				nx.C[k] = Store(x.C[k], i, v.C[k])
			}
			ex.assignTo(st, l.X, nx)
		case *types.Pointer:
			a, ok := u.Elem().Underlying().(*types.Array)
			if !ok {
				ex.unsupported(l, "index assignment through %v", xt)
			}
			p := ex.eval(st, l.X)
			ex.nilCheck(st, l, p)
			x := st.loadStruct(p.C[0], u.Elem())
			i := ex.eval(st, l.Index).term()
			ex.oblig(st, "index", l, ex.exprStr(l), And(Le(IntLit(0), i), Lt(i, IntLit(a.Len()))))
			v = ex.coerce(st, l, v, a.Elem())
			nx := Val{T: x.T, C: append([]*Term(nil), x.C...)}
			for k := range v.C {
				nx.C[k] = Store(x.C[k], i, v.C[k])
			}
			ex.mutCount++
			st.storeStruct(p.C[0], u.Elem(), nx)
		default:
			ex.unsupported(l, "index assignment on %v", xt)
		}
	case *ast.StarExpr:
		p := ex.eval(st, l.X)
		ex.nilCheck(st, l, p)
		t := ex.typeOf(l)
		ex.mutCount++
		st.storeStruct(p.C[0], t, ex.coerce(st, l, v, t))
	default:
		ex.unsupported(lhs, "assignment target %T", lhs)
	}
}

// assignPath assigns v to base.path (path through possibly embedded fields).
func (ex *Exec) assignPath(st *State, n ast.Node, base ast.Expr, path []int, v Val) {
	bt := ex.typeOf(base)
	// walk all but the last step by reading
	if p, ok := bt.Underlying().(*types.Pointer); ok {
		ref := ex.eval(st, base)
		ex.oblig(st, "nil-deref", n, ex.exprStr(n), Neq(ref.C[0], IntLit(0)))
		ex.storePath(st, n, ref.C[0], p.Elem(), path, v)
		return
	}
	// element of a slice of structs: store only the components of the assigned field
	if ix, ok := unparen(base).(*ast.IndexExpr); ok {
		if sl, ok := ex.typeOf(ix.X).Underlying().(*types.Slice); ok {
			if off, n2, ok := compRange(sl.Elem(), path); ok && n2 == len(v.C) {
				x := ex.eval(st, ix.X)
				i := ex.eval(st, ix.Index).term()
				p := sliceParts(x)
				ex.oblig(st, "index", ix, ex.exprStr(ix), And(Le(IntLit(0), i), Lt(i, p.len)))
				cs := flatten(sl.Elem())
				pos := Add(p.off, i)
				for k := 0; k < n2; k++ {
					name, h := st.elemHeap(sl.Elem(), cs[off+k])
					st.heapSet(name, Store(h, p.arr, Store(Select(h, p.arr), pos, v.C[k])))
				}
				ex.mutCount++
				return
			}
		}
	}
	// struct value: read-modify-write of the base location
	cur := ex.eval(st, base)
	nv := ex.updatePath(st, n, cur, path, v)
	ex.assignTo(st, base, nv)
}

// compRange: component offset and count of the field reached by path inside struct type t
// (value fields only; fails when the path crosses a pointer).
func compRange(t types.Type, path []int) (int, int, bool) {
	off := 0
	for _, idx := range path {
		stt, ok := t.Underlying().(*types.Struct)
		if !ok || isOpaqueStruct(t) {
			return 0, 0, false
		}
		for i := 0; i < idx; i++ {
			off += len(flatten(stt.Field(i).Type()))
		}
		t = stt.Field(idx).Type()
	}
	return off, len(flatten(t)), true
}

func (ex *Exec) storePath(st *State, n ast.Node, ref *Term, structT types.Type, path []int, v Val) {
	stt := structT.Underlying().(*types.Struct)
	f := stt.Field(path[0])
	if len(path) == 1 {
		ex.mutCount++
		st.storeField(ref, structT, f.Name(), v)
		return
	}
	if p, ok := f.Type().Underlying().(*types.Pointer); ok {
		inner := st.loadField(ref, structT, f.Name())
		ex.oblig(st, "nil-deref", n, ex.exprStr(n), Neq(inner.C[0], IntLit(0)))
		ex.storePath(st, n, inner.C[0], p.Elem(), path[1:], v)
		return
	}
	cur := st.loadField(ref, structT, f.Name())
	nv := ex.updatePath(st, n, cur, path[1:], v)
	ex.mutCount++
	st.storeField(ref, structT, f.Name(), nv)
}

func (ex *Exec) updatePath(st *State, n ast.Node, cur Val, path []int, v Val) Val {
	stt, ok := cur.T.Underlying().(*types.Struct)
	if !ok {
		ex.unsupported(n, "field update on %v", cur.T)
	}
	f := stt.Field(path[0])
	if len(path) == 1 {
		return withStructField(cur, f.Name(), v)
	}
	fv, _, _ := structField(cur, f.Name())
	if p, ok := f.Type().Underlying().(*types.Pointer); ok {
		ex.oblig(st, "nil-deref", n, ex.exprStr(n), Neq(fv.C[0], IntLit(0)))
		ex.storePath(st, n, fv.C[0], p.Elem(), path[1:], v)
		return cur
	}
	return withStructField(cur, f.Name(), ex.updatePath(st, n, fv, path[1:], v))
}

func (ex *Exec) execIf(st *State, s *ast.IfStmt) Outcomes {
	if s.Init != nil {
		o := ex.execStmt(st, s.Init)
		st = o.falls[0]
	}
	c := ex.eval(st, s.Cond).term()
	return ex.branch(st, c, func(t *State) Outcomes { return ex.execBlock(t, s.Body.List) }, func(e *State) Outcomes {
		if s.Else == nil {
			return single(e)
		}
		return ex.execStmt(e, s.Else)
	})
}

// branch forks st on c, runs both arms and merges the fall-through states.
func (ex *Exec) branch(st *State, c *Term, thenF, elseF func(*State) Outcomes) Outcomes {
	if c == True {
		return thenF(st)
	}
	if c == False {
		return elseF(st)
	}
	ts := st.clone()
	ts.assumeBranch(c)
	es := st
	es.assumeBranch(Not(c))
	to := thenF(ts)
	eo := elseF(es)
	out := Outcomes{brk: append(to.brk, eo.brk...), cont: append(to.cont, eo.cont...)}
	out.falls = append(to.falls, eo.falls...)
	return out
}

func mergeMany(sts []*State, nbase int) *State {
	if len(sts) == 0 {
		return nil
	}
	m := sts[0]
	for _, s := range sts[1:] {
		n := nbase
		if n > len(s.facts) {
			n = len(s.facts)
		}
		if n > len(m.facts) {
			n = len(m.facts)
		}
		for i := 0; i < n; i++ {
			if s.facts[i] != m.facts[i] {
				n = i
				break
			}
		}
		c := s.disc(n)
		m = mergeStates(c, s, m, n)
	}
	return m
}

func (ex *Exec) execSwitch(st *State, s *ast.SwitchStmt) Outcomes {
	if s.Init != nil {
		st = ex.execStmt(st, s.Init).falls[0]
	}
	var tag *Val
	if s.Tag != nil {
		v := ex.eval(st, s.Tag)
		tag = &v
	}
	nb := len(st.facts)
	var falls []*State
	out := Outcomes{}
	cur := st
	var deflt *ast.CaseClause
	for _, cc := range s.Body.List {
		cl := cc.(*ast.CaseClause)
		if cl.List == nil {
			deflt = cl
			continue
		}
		if cur == nil {
			break
		}
		var conds []*Term
		for _, e := range cl.List {
			if tag != nil {
				v := ex.eval(cur, e)
				conds = append(conds, ex.valEq(cur, e, *tag, v))
			} else {
				conds = append(conds, ex.eval(cur, e).term())
			}
		}
		c := Or(conds...)
		ts := cur.clone()
		ts.assumeBranch(c)
		cur.assumeBranch(Not(c))
		for _, b := range cl.Body {
			if br, ok := b.(*ast.BranchStmt); ok && br.Tok == token.FALLTHROUGH {
				ex.unsupported(br, "fallthrough")
			}
		}
		o := ex.execBlock(ts, cl.Body)
		falls = append(falls, o.falls...)
		falls = append(falls, o.brk...) // break inside switch leaves the switch
		out.cont = append(out.cont, o.cont...)
	}
	if cur != nil {
		if deflt != nil {
			o := ex.execBlock(cur, deflt.Body)
			falls = append(falls, o.falls...)
			falls = append(falls, o.brk...)
			out.cont = append(out.cont, o.cont...)
		} else {
			falls = append(falls, cur)
		}
	}
	_ = nb
	out.falls = falls
	return out
}

func (ex *Exec) execTypeSwitch(st *State, s *ast.TypeSwitchStmt) Outcomes {
	if s.Init != nil {
		st = ex.execStmt(st, s.Init).falls[0]
	}
	var xe ast.Expr
	var bind *ast.Ident
	switch a := s.Assign.(type) {
	case *ast.ExprStmt:
		xe = a.X.(*ast.TypeAssertExpr).X
	case *ast.AssignStmt:
		xe = a.Rhs[0].(*ast.TypeAssertExpr).X
		bind = a.Lhs[0].(*ast.Ident)
	}
	_ = bind
	x := ex.eval(st, xe)
	nb := len(st.facts)
	var falls []*State
	out := Outcomes{}
	cur := st
	var deflt *ast.CaseClause
	for _, cc := range s.Body.List {
		cl := cc.(*ast.CaseClause)
		if cl.List == nil {
			deflt = cl
			continue
		}
		var conds []*Term
		var single types.Type
		for _, te := range cl.List {
			tt := ex.typeOf(te)
			if isNilType(tt) {
				conds = append(conds, Eq(x.C[0], IntLit(0)))
				continue
			}
			if isIface(tt) {
				conds = append(conds, And(Neq(x.C[0], IntLit(0)), Fresh("implements", SBool)))
			} else {
				conds = append(conds, Eq(x.C[0], typeTag(tt)))
			}
			single = tt
		}
		c := Or(conds...)
		ts := cur.clone()
		ts.assumeBranch(c)
		cur.assumeBranch(Not(c))
		if o, ok := ex.P.Info.Implicits[cl].(*types.Var); ok {
			if len(cl.List) == 1 && single != nil {
				ex.declVar(ts, o, ex.fromIface(ts, x, single))
			} else {
				ex.declVar(ts, o, Val{T: o.Type(), C: x.C})
			}
		}
		o := ex.execBlock(ts, cl.Body)
		falls = append(falls, o.falls...)
		falls = append(falls, o.brk...)
		out.cont = append(out.cont, o.cont...)
	}
	if deflt != nil {
		if o, ok := ex.P.Info.Implicits[deflt].(*types.Var); ok {
			ex.declVar(cur, o, Val{T: o.Type(), C: x.C})
		}
		o := ex.execBlock(cur, deflt.Body)
		falls = append(falls, o.falls...)
		falls = append(falls, o.brk...)
		out.cont = append(out.cont, o.cont...)
	} else {
		falls = append(falls, cur)
	}
	_ = nb
	out.falls = falls
	return out
}

func isNilType(t types.Type) bool {
	b, ok := t.(*types.Basic)
	return ok && b.Kind() == types.UntypedNil
}

func (ex *Exec) execReturn(st *State, s *ast.ReturnStmt) {
	fn := ex.curFn
	res := fn.Sig.Results()
	var vals []Val
	if len(s.Results) == 0 && res.Len() > 0 {
		for i := 0; i < res.Len(); i++ {
			v, ok := st.vars[res.At(i)]
			if !ok && res.At(i).Name() == "_" {
				vals = append(vals, zeroVal(res.At(i).Type()))
				continue
			}
			if !ok {
				ex.unsupported(s, "bare return without named results")
			}
			if ex.boxed[res.At(i)] {
				v = st.loadStruct(v.C[0], res.At(i).Type())
			}
			vals = append(vals, v)
		}
	} else if len(s.Results) == 1 && res.Len() > 1 {
		vs := ex.evalMulti(st, s.Results[0], res.Len())
		for i, v := range vs {
			vals = append(vals, ex.coerce(st, s, v, res.At(i).Type()))
		}
	} else {
		for i, r := range s.Results {
			vals = append(vals, ex.evalTyped(st, r, res.At(i).Type()))
		}
	}
	ex.retStates = append(ex.retStates, retOut{st: st, site: s, vals: vals, fn: fn})
}

// ---- loops ----

type loopShape struct {
	stmt   ast.Stmt
	cond   func(st *State) *Term       // loop condition at the head (nil: true)
	body   func(st *State) Outcomes    // body execution
	post   func(st *State)             // post statement
	atHead func(st *State, first bool) // binds hidden variables for invariants
	facts  func(st *State) []*Term     // built-in facts valid at every head
	mod    *ModSet
	extraV []*types.Var // additional variables to havoc
	hidden []string     // ghost names to havoc
}

func (ex *Exec) loopSpec(stmt ast.Stmt) (*LoopSpec, int) {
	n := ex.loopOrd[stmt]
	fn := ex.curFn
	if fn.Contract != nil {
		if ls, ok := fn.Contract.Loops[n]; ok {
			return ls, n
		}
	}
	return nil, n
}

func (ex *Exec) specCtxAt(st *State, pos token.Pos) *SpecCtx {
	c := &SpecCtx{ex: ex, st: st, old: ex.pre, env: map[string]Val{}, ghosts: ex.ghosts, pos: pos}
	if pos != token.NoPos {
		sc := ex.P.Pkg.Types.Scope().Innermost(pos)
		c.scope = sc
	}
	return c
}

func (ex *Exec) runLoop(st *State, ls loopShape) Outcomes {
	spec, ord := ex.loopSpec(ls.stmt)
	pos := ls.stmt.Pos()
	if b := loopBodyPos(ls.stmt); b != token.NoPos {
		pos = b
	}
	// ghost variables
	var ghosts []*GhostVar
	if spec != nil {
		ghosts = spec.Ghosts
	}
	for _, g := range ghosts {
		c := ex.specCtxAt(st, pos)
		st.ghost[g.Name] = c.eval(g.Init)
	}
	if ls.atHead != nil {
		ls.atHead(st, true)
	}
	// invariants on entry
	var invs []*Clause
	if spec != nil {
		invs = spec.Invs
		ex.applyUses(st, spec.Uses, "entry", pos)
	}
	for i, inv := range invs {
		c := ex.specCtxAt(st, pos)
		t := ex.evalSpecBool(c, inv.E, fmt.Sprintf("loop %d invariant %d", ord, i+1))
		ex.oblig(st, "inv-entry", ls.stmt, fmt.Sprintf("loop%d:%s", ord, clauseName(inv, i)), t)
	}
	// havoc
	entryCtr := st.ctr
	var entrySnap map[string]*Term
	if ls.mod != nil {
		entrySnap = map[string]*Term{}
		for _, h := range ls.mod.heapNames() {
			entrySnap[h] = st.heapGet(h, ls.mod.heaps[h])
		}
	}
	entrySt := st.clone()
	ex.havocFor(st, ls.mod, fmt.Sprintf("L%d", ord))
	for _, v := range ls.extraV {
		if _, ok := st.vars[v]; ok && !ex.boxed[v] {
			nv := freshVal(v.Name(), v.Type())
			st.vars[v] = nv
			st.assumeAll(typeFacts(nv))
			st.assumeAll(ex.allocFacts(st, nv))
		}
	}
	for _, g := range ghosts {
		if g.AtEnd == nil {
			continue // constant through the loop (snapshot of a value at loop entry)
		}
		old := st.ghost[g.Name]
		st.ghost[g.Name] = freshLike("ghost."+g.Name, old)
	}
	for _, h := range ls.hidden {
		if old, ok := st.ghost[h]; ok {
			st.ghost[h] = freshLike("hidden."+sanitize(h), old)
		}
	}
	if ls.atHead != nil {
		ls.atHead(st, false)
	}
	if ls.facts != nil {
		st.assumeAll(ls.facts(st))
	}
	for i, inv := range invs {
		c := ex.specCtxAt(st, pos)
		st.assume(ex.evalSpecBool(c, inv.E, fmt.Sprintf("loop %d invariant %d", ord, i+1)))
	}
	// automatic frame invariants (Houdini: kept only when proved inductive)
	if entrySnap != nil {
		ex.houdiniFrames(st, entrySnap, entryCtr, ls, spec, ghosts, pos, ord, entrySt)
	}
	var dec0 *Term
	if spec != nil && spec.Decreases != nil {
		dec0 = ex.specCtxAt(st, pos).evalTerm(spec.Decreases)
	}
	// automatic variant of counted loops (sweep mode): `i < e` gives e - i, `i >= c` gives i - c
	var autoVar func(s *State) (*Term, bool)
	var autoDec0 *Term
	if dec0 == nil && sweepMode {
		autoVar = ex.autoVariant(ls)
		if autoVar != nil {
			if t, ok := autoVar(st); ok {
				autoDec0 = t
			} else {
				autoVar = nil
			}
		}
		if autoVar == nil {
			if fs, isFor := ls.stmt.(*ast.ForStmt); isFor {
				ex.assumedExt["termination of the source-driven loop at "+ex.P.Fset.Position(fs.Pos()).String()[len(repoDir)+1:]+" (no counted variant: it ends when the scanner / tokenizer / decoder / demultiplexer it polls reports the end of its finite input)"] = true
			}
		}
	}
	nb := len(st.facts)
	exitSt, backs, brks := ex.loopIter(st, ls, ghosts, pos)
	for _, back := range backs {
		if spec != nil {
			ex.applyUses(back, spec.Uses, "step", pos)
		}
		if autoVar != nil {
			if d1, ok := autoVar(back); ok {
				// the head value is taken under the loop condition (the back edge state assumes it)
				ex.obligNoAssume(back, "decreases", ls.stmt, fmt.Sprintf("loop%d:auto-variant", ord), And(Ge(autoDec0, IntLit(0)), Lt(d1, autoDec0)))
			} else {
				ex.obligNoAssume(back, "decreases", ls.stmt, fmt.Sprintf("loop%d:auto-variant", ord), False)
			}
		}
		for i, inv := range invs {
			c := ex.specCtxAt(back, pos)
			t := ex.evalSpecBool(c, inv.E, fmt.Sprintf("loop %d invariant %d", ord, i+1))
			ex.obligNoAssume(back, "inv-step", ls.stmt, fmt.Sprintf("loop%d:%s", ord, clauseName(inv, i)), t)
		}
		if dec0 != nil {
			d1 := ex.specCtxAt(back, pos).evalTerm(spec.Decreases)
			ex.obligNoAssume(back, "decreases", ls.stmt, fmt.Sprintf("loop%d", ord), And(Ge(dec0, IntLit(0)), Lt(d1, dec0)))
		}
	}
	_ = nb
	res := Outcomes{}
	if exitSt != nil {
		res.falls = append(res.falls, exitSt)
	}
	res.falls = append(res.falls, brks...)
	return res
}

// loopIter runs one arbitrary iteration from the head state: returns the exit
// state (condition false), the states at the back edge (after ghost updates and
// the post statement) and the states leaving through break.
func (ex *Exec) loopIter(st *State, ls loopShape, ghosts []*GhostVar, pos token.Pos) (exitSt *State, backs []*State, brks []*State) {
	_ = len(st.facts)
	cond := True
	if ls.cond != nil {
		cond = ls.cond(st)
	}
	if cond != True {
		exitSt = st.clone()
		exitSt.assumeBranch(Not(cond))
	}
	bodySt := st
	bodySt.assumeBranch(cond)
	var outs Outcomes
	if cond != False {
		outs = ls.body(bodySt)
	}
	backs = append(backs, outs.falls...)
	backs = append(backs, outs.cont...)
	if len(backs) > 48 {
		// back edges are checked one by one (small VCs); only a very large number is merged
		backs = mergeClosest(backs, 48)
	}
	for _, back := range backs {
		for _, g := range ghosts {
			if g.AtEnd != nil {
				c := ex.specCtxAt(back, pos)
				back.ghost[g.Name] = c.eval(g.AtEnd)
			}
		}
		if ls.post != nil {
			ls.post(back)
		}
		if ls.atHead != nil {
			ls.atHead(back, false)
		}
	}
	return exitSt, backs, outs.brk
}

type execSnap struct {
	nObls     int
	oblCount  map[string]int
	nRets     int
	callSeq   int
	notes     map[string]bool
	ext       map[string]bool
	lastGhost map[string]map[string]*GhostInst
	ghosts    map[string]*GhostInst
	nAuto     int
}

func (ex *Exec) snapshot() *execSnap {
	s := &execSnap{nObls: len(ex.Obls), oblCount: map[string]int{}, nRets: len(ex.retStates), callSeq: ex.callSeq,
		notes: map[string]bool{}, ext: map[string]bool{}, lastGhost: map[string]map[string]*GhostInst{}, ghosts: map[string]*GhostInst{}}
	for k, v := range ex.oblCount {
		s.oblCount[k] = v
	}
	for k, v := range ex.notes {
		s.notes[k] = v
	}
	for k, v := range ex.assumedExt {
		s.ext[k] = v
	}
	for k, v := range ex.lastGhost {
		s.lastGhost[k] = v
	}
	for k, v := range ex.ghosts {
		s.ghosts[k] = v
	}
	s.nAuto = len(ex.autoInvs)
	return s
}

func (ex *Exec) restore(s *execSnap) {
	ex.Obls = ex.Obls[:s.nObls]
	ex.oblCount = s.oblCount
	ex.retStates = ex.retStates[:s.nRets]
	ex.callSeq = s.callSeq
	ex.notes = s.notes
	ex.assumedExt = s.ext
	ex.lastGhost = s.lastGhost
	ex.ghosts = s.ghosts
	ex.autoInvs = ex.autoInvs[:s.nAuto]
}

type failKey struct {
	stmt ast.Stmt
	name string
}

type autoCand struct {
	name string
	at   func(st *State) *Term
}

// houdiniFrames: for every heap array havocked wholesale by the loop, the
// candidate "locations allocated before the loop keep their entry value" is
// tried; the candidates that are jointly inductive are assumed at the head.
func (ex *Exec) houdiniFrames(st *State, entry map[string]*Term, entryCtr *Term, ls loopShape, spec *LoopSpec, ghosts []*GhostVar, pos token.Pos, ord int, entrySt *State) {
	if ex.noHoudini || ex.probeDepth > 1 {
		return
	}
	var cands []autoCand
	var names []string
	for h := range entry {
		names = append(names, h)
	}
	sort.Strings(names)
	for _, h := range names {
		h := h
		e := entry[h]
		cur := st.heap[h]
		if cur == nil || cur == e {
			continue
		}
		if cur.kind == 0 && cur.op == "store" {
			continue // location-precise havoc already
		}
		if ls.mod.noFrame[h] {
			continue
		}
		cands = append(cands, autoCand{name: "frame:" + describeHeapName(h), at: func(s *State) *Term {
			r := BVar("r", SInt)
			c := s.heapGet(h, heapSorts[h])
			return Forall([]*Term{r}, Implies(Lt(r, entryCtr), Eq(Select(c, r), Select(e, r))), []*Term{Select(c, r)})
		}})
		if ex.pre != nil && ex.pre.ctr != entryCtr {
			// weaker variant: locations that existed when the function was entered
			c0 := ex.pre.ctr
			cands = append(cands, autoCand{name: "frame0:" + describeHeapName(h), at: func(s *State) *Term {
				r := BVar("r", SInt)
				c := s.heapGet(h, heapSorts[h])
				return Forall([]*Term{r}, Implies(Lt(r, c0), Eq(Select(c, r), Select(e, r))), []*Term{Select(c, r)})
			}})
		}
	}
	// parameter-relative frames: locations that existed at function entry and are not among the
	// objects handed to this function keep their loop-entry value
	if paramRelativeLoopFrames && ex.pre != nil && ex.curFn != nil && len(ex.inlineStack) == 0 {
		handed := ex.fnHanded()
		if len(handed) > 0 {
			c0 := ex.pre.ctr
			for _, h := range names {
				h := h
				e := entry[h]
				cur := st.heap[h]
				if cur == nil || cur == e || ls.mod.noFrame[h] || strings.HasPrefix(h, "G$") {
					continue
				}
				excl := exclusionsFor(h, handed)
				if len(excl) == 0 {
					continue
				}
				cands = append(cands, autoCand{name: "frameP:" + describeHeapName(h), at: func(s *State) *Term {
					r := BVar("r", SInt)
					c := s.heapGet(h, heapSorts[h])
					cond := []*Term{Lt(r, c0)}
					for _, p := range excl {
						cond = append(cond, Neq(r, p))
					}
					return Forall([]*Term{r}, Implies(And(cond...), Eq(Select(c, r), Select(e, r))), []*Term{Select(c, r)})
				}})
			}
		}
	}
	cands = append(cands, ex.varCandidates(st, entrySt, ls)...)
	if len(cands) == 0 {
		return
	}
	if ex.houdiniFailed == nil {
		ex.houdiniFailed = map[failKey]bool{}
	}
	var active []autoCand
	for _, c := range cands {
		if !ex.houdiniFailed[failKey{ls.stmt, c.name}] {
			active = append(active, c)
		}
	}
	for round := 0; round < 6 && len(active) > 0; round++ {
		snap := ex.snapshot()
		probe := st.clone()
		for _, c := range active {
			probe.assume(c.at(probe))
		}
		ex.probeDepth++
		var backs []*State
		failedRun := false
		func() {
			defer func() {
				if r := recover(); r != nil {
					if _, ok := r.(undecided); ok {
						failedRun = true
						return
					}
					panic(r)
				}
			}()
			_, backs, _ = ex.loopIter(probe, ls, ghosts, pos)
		}()
		ex.probeDepth--
		ex.restore(snap)
		if failedRun {
			return
		}
		// frame candidates of the fields of one struct type usually share their fate: they are
		// tried together first (one query per back edge) and one by one only when that fails
		groupOf := func(name string) string {
			if !strings.HasPrefix(name, "frame:") && !strings.HasPrefix(name, "frame0:") && !strings.HasPrefix(name, "frameP:") {
				return ""
			}
			if i := strings.LastIndex(name, "."); i > 0 {
				return name[:i]
			}
			return ""
		}
		groups := map[string][]int{}
		var gkeys []string
		var single []int
		for ci, c := range active {
			g := groupOf(c.name)
			if g == "" || ex.houdiniFailed[failKey{ls.stmt, "group:" + g}] {
				single = append(single, ci)
				continue
			}
			if _, ok := groups[g]; !ok {
				gkeys = append(gkeys, g)
			}
			groups[g] = append(groups[g], ci)
		}
		for _, g := range append([]string(nil), gkeys...) {
			if len(groups[g]) < 3 {
				single = append(single, groups[g]...)
				delete(groups, g)
			}
		}
		var goals []*Obligation
		var owner []int
		var gowner []string
		for _, b := range backs {
			for _, g := range gkeys {
				m, ok := groups[g]
				if !ok {
					continue
				}
				var all []*Term
				for _, ci := range m {
					all = append(all, active[ci].at(b))
				}
				goals = append(goals, &Obligation{Name: fmt.Sprintf("%s#auto[loop%d:%s.*]#%d", ex.Fn.Key, ord, g, len(goals)), Kind: "auto-inv", Func: ex.Fn.Key,
					Facts: append([]*Term(nil), b.facts...), Goal: And(all...), Auto: true})
				owner = append(owner, -1)
				gowner = append(gowner, g)
			}
			for _, ci := range single {
				c := active[ci]
				goals = append(goals, &Obligation{Name: fmt.Sprintf("%s#auto[loop%d:%s]#%d", ex.Fn.Key, ord, c.name, len(goals)), Kind: "auto-inv", Func: ex.Fn.Key,
					Facts: append([]*Term(nil), b.facts...), Goal: c.at(b), Auto: true})
				owner = append(owner, ci)
				gowner = append(gowner, "")
			}
		}
		if os.Getenv("GOVC_HOUDINI") != "" {
			fmt.Fprintf(os.Stderr, "  houdini-round %s loop%d depth=%d round=%d backs=%d groups=%d singles=%d goals=%d\n", ex.Fn.Key, ord, ex.probeDepth, round, len(backs), len(groups), len(single), len(goals))
		}
		ex.quickSolve(goals)
		ex.quickTimeout = 0
		failed := map[int]bool{}
		splitGroups := map[string]bool{}
		for gi, g := range goals {
			if g.Status != "proved" {
				if owner[gi] < 0 {
					splitGroups[gowner[gi]] = true
					continue
				}
				failed[owner[gi]] = true
				// failures are monotone (later analyses of this loop assume no more than this one)
				ex.houdiniFailed[failKey{ls.stmt, active[owner[gi]].name}] = true
			}
		}
		if len(splitGroups) > 0 {
			var goals2 []*Obligation
			var owner2 []int
			for _, b := range backs {
				for _, g := range gkeys {
					if !splitGroups[g] {
						continue
					}
					for _, ci := range groups[g] {
						c := active[ci]
						goals2 = append(goals2, &Obligation{Name: fmt.Sprintf("%s#auto[loop%d:%s]#s%d", ex.Fn.Key, ord, c.name, len(goals2)), Kind: "auto-inv", Func: ex.Fn.Key,
							Facts: append([]*Term(nil), b.facts...), Goal: c.at(b), Auto: true})
						owner2 = append(owner2, ci)
					}
				}
			}
			ex.quickSolve(goals2)
			for gi, g := range goals2 {
				if g.Status != "proved" {
					failed[owner2[gi]] = true
					ex.houdiniFailed[failKey{ls.stmt, active[owner2[gi]].name}] = true
				}
			}
		}
		if len(failed) == 0 {
			break
		}
		var next []autoCand
		for ci, c := range active {
			if !failed[ci] {
				next = append(next, c)
			}
		}
		active = next
	}
	if os.Getenv("GOVC_HOUDINI") != "" {
		var kept []string
		for _, c := range active {
			kept = append(kept, c.name)
		}
		fmt.Fprintf(os.Stderr, "houdini %s loop%d depth=%d: %d candidates, kept %v\n", ex.Fn.Key, ord, ex.probeDepth, len(cands), kept)
	}
	for _, c := range active {
		st.assume(c.at(st))
		ex.autoInvs = append(ex.autoInvs, fmt.Sprintf("loop%d:%s", ord, c.name))
	}
}

// quickSolve discharges probe obligations synchronously with a short timeout.
var quickStats struct {
	calls, goals int
	stage2       int
	wall         time.Duration
	render       time.Duration
}

func (ex *Exec) quickSolve(goals []*Obligation) {
	if len(goals) == 0 {
		return
	}
	t0 := time.Now()
	defer func() {
		quickStats.calls++
		quickStats.goals += len(goals)
		quickStats.wall += time.Since(t0)
	}()
	dir := filepath.Join(verifDir, "work", "houdini", sanitizeFile(ex.Fn.Key))
	os.MkdirAll(dir, 0o755)
	to := 4
	if sweepMode {
		to = 3
	}
	if ex.quickTimeout > 0 {
		to = ex.quickTimeout
	}
	d := &Discharger{TimeoutS: to, Seed: 1, Par: runtime.NumCPU(), Quick: true}
	if p := os.Getenv("GOVC_PAR"); p != "" {
		if n, err := strconv.Atoi(p); err == nil && n > 0 {
			d.Par = n
		}
	}
	run := func(gs []*Obligation, cone bool) {
		var wg sync.WaitGroup
		sem := make(chan struct{}, d.Par)
		for i, g := range gs {
			g := g
			g.File = filepath.Join(dir, fmt.Sprintf("g%d_%d.smt2", ex.houdiniSeq, i))
			if cone {
				os.WriteFile(g.File, []byte(g.scriptCone(ex.globalFacts)), 0o644)
			} else {
				os.WriteFile(g.File, []byte(g.script(ex.globalFacts)), 0o644)
			}
			wg.Add(1)
			sem <- struct{}{}
			go func() {
				defer wg.Done()
				defer func() { <-sem }()
				d.solveFile(g, g.File)
				if os.Getenv("GOVC_HOUDINI_KEEP") == "" {
					os.Remove(g.File)
				}
			}()
		}
		wg.Wait()
		ex.houdiniSeq++
	}
	run(goals, false)
}

func loopBodyPos(s ast.Stmt) token.Pos {
	switch l := s.(type) {
	case *ast.ForStmt:
		return l.Body.Lbrace + 1
	case *ast.RangeStmt:
		return l.Body.Lbrace + 1
	}
	return token.NoPos
}

func clauseName(c *Clause, i int) string {
	if c.Label != "" {
		return c.Label
	}
	return fmt.Sprintf("inv%d", i+1)
}

func (ex *Exec) evalSpecBool(c *SpecCtx, e *SExpr, what string) (t *Term) {
	defer func() {
		if r := recover(); r != nil {
			if sf, ok := r.(specFail); ok {
				panic(undecided{fmt.Sprintf("%s: contract error in %s: %s", ex.curFn.Key, what, string(sf))})
			}
			panic(r)
		}
	}()
	return c.evalBool(e)
}

func (ex *Exec) execFor(st *State, s *ast.ForStmt) Outcomes {
	if s.Init != nil {
		st = ex.execStmt(st, s.Init).falls[0]
	}
	mod := ex.modsetOf(s.Body, s.Post, s.Cond)
	ls := loopShape{stmt: s, mod: mod}
	if s.Cond != nil {
		ls.cond = func(t *State) *Term { return ex.eval(t, s.Cond).term() }
	}
	ls.body = func(t *State) Outcomes { return ex.execBlock(t, s.Body.List) }
	if s.Post != nil {
		ls.post = func(t *State) { ex.execStmt(t, s.Post) }
	}
	return ex.runLoop(st, ls)
}

func (ex *Exec) execRange(st *State, s *ast.RangeStmt) Outcomes {
	xt := ex.typeOf(s.X)
	ord := ex.loopOrd[s]
	hname := fmt.Sprintf("$k%d", ord)
	var keyVar, valVar *types.Var
	getVar := func(e ast.Expr) *types.Var {
		if e == nil {
			return nil
		}
		id, ok := e.(*ast.Ident)
		if !ok {
			ex.unsupported(e, "range variable is not an identifier")
		}
		if id.Name == "_" {
			return nil
		}
		if o, ok := ex.P.Info.Defs[id].(*types.Var); ok {
			return o
		}
		if o, ok := ex.P.Info.Uses[id].(*types.Var); ok {
			return o
		}
		return nil
	}
	keyVar, valVar = getVar(s.Key), getVar(s.Value)
	mod := ex.modsetOf(s.Body)
	switch u := xt.Underlying().(type) {
	case *types.Slice, *types.Array, *types.Pointer:
		var n *Term
		var xs Val
		xs = ex.eval(st, s.X)
		isSlice := false
		var arrT *types.Array
		switch uu := u.(type) {
		case *types.Slice:
			n = sliceParts(xs).len
			isSlice = true
		case *types.Array:
			n = IntLit(uu.Len())
			arrT = uu
		case *types.Pointer:
			a, ok := uu.Elem().Underlying().(*types.Array)
			if !ok {
				ex.unsupported(s, "range over %v", xt)
			}
			ex.nilCheck(st, s, xs)
			n = IntLit(a.Len())
			arrT = a
			xs = st.loadStruct(xs.C[0], uu.Elem())
		}
		st.ghost[hname] = intVal(IntLit(0))
		ls := loopShape{stmt: s, mod: mod, hidden: []string{hname}}
		if keyVar != nil {
			ls.extraV = append(ls.extraV, keyVar)
		}
		if valVar != nil {
			ls.extraV = append(ls.extraV, valVar)
		}
		ls.atHead = func(t *State, first bool) {
			if keyVar != nil {
				ex.declVarNoBox(t, keyVar, scalar(keyVar.Type(), t.ghost[hname].term()))
			}
		}
		ls.facts = func(t *State) []*Term {
			k := t.ghost[hname].term()
			return []*Term{Le(IntLit(0), k), Le(k, n)}
		}
		ls.cond = func(t *State) *Term { return Lt(t.ghost[hname].term(), n) }
		ls.body = func(t *State) Outcomes {
			k := t.ghost[hname].term()
			if keyVar != nil {
				ex.declVar(t, keyVar, scalar(keyVar.Type(), k))
			}
			if valVar != nil {
				var v Val
				if isSlice {
					v = t.elemLoad(xs, k)
				} else {
					v = arrayElem(xs, arrT, k, t)
				}
				t.assumeAll(loadFacts(v))
				ex.declVar(t, valVar, v)
			}
			return ex.execBlock(t, s.Body.List)
		}
		ls.post = func(t *State) {
			t.ghost[hname] = intVal(Add(t.ghost[hname].term(), IntLit(1)))
		}
		return ex.runLoop(st, ls)
	case *types.Map:
		if sweepMode && ex.probeDepth == 0 && len(ex.inlineStack) == 0 && !ex.frameProbe {
			// C19: the effect of a loop over a map must not depend on the iteration order. Decided
			// structurally: the loop only collects keys (or a field of the values) into a slice that
			// is sorted by the next statement; anything else is reported.
			okOrder, why := ex.mapRangeOrderFree(s)
			goal := True
			if !okOrder {
				goal = False
			}
			ex.obligNoAssume(st, "map-order", s, fmt.Sprintf("loop%d:%s", ord, why), goal)
		}
		m := ex.eval(st, s.X)
		ks := mapKeySort(xt)
		vname := fmt.Sprintf("$visited%d", ord)
		cname := fmt.Sprintf("$cur%d", ord)
		st.ghost[vname] = Val{T: tInt, C: []*Term{zeroOfSort(SArr(ks, SBool))}}
		st.ghost[cname] = Val{T: u.Key(), C: []*Term{zeroOfSort(ks)}}
		ls := loopShape{stmt: s, mod: mod, hidden: []string{vname, cname}}
		if keyVar != nil {
			ls.extraV = append(ls.extraV, keyVar)
		}
		if valVar != nil {
			ls.extraV = append(ls.extraV, valVar)
		}
		nonNil := Neq(m.C[0], IntLit(0))
		ls.cond = func(t *State) *Term {
			// some present key not yet visited: the body picks an arbitrary such key
			k := t.ghost[cname].term()
			vis := t.ghost[vname].term()
			has := And(nonNil, t.mapHas(m, k), Not(Select(vis, k)))
			// exit condition: all present keys visited
			kk := BVar("k", ks)
			all := Forall([]*Term{kk}, Implies(And(nonNil, t.mapHas(m, kk)), Select(vis, kk)), []*Term{Select(vis, kk)})
			// nondeterministic choice: "has" describes iteration, "all" describes exit
			c := Fresh("maprange", SBool)
			t.assume(Implies(c, has))
			t.assume(Implies(Not(c), all))
			return c
		}
		ls.body = func(t *State) Outcomes {
			k := t.ghost[cname].term()
			if keyVar != nil {
				ex.declVar(t, keyVar, scalar(keyVar.Type(), k))
			}
			if valVar != nil {
				v := t.mapGetRaw(m, k)
				t.assumeAll(loadFacts(v))
				ex.declVar(t, valVar, v)
			}
			return ex.execBlock(t, s.Body.List)
		}
		ls.post = func(t *State) {
			k := t.ghost[cname].term()
			t.ghost[vname] = Val{T: tInt, C: []*Term{Store(t.ghost[vname].term(), k, True)}}
		}
		return ex.runLoop(st, ls)
	case *types.Basic:
		if u.Info()&types.IsString != 0 {
			sv := ex.eval(st, s.X).term()
			n := StrLen(sv)
			st.ghost[hname] = intVal(IntLit(0))
			ls := loopShape{stmt: s, mod: mod, hidden: []string{hname}}
			if keyVar != nil {
				ls.extraV = append(ls.extraV, keyVar)
			}
			if valVar != nil {
				ls.extraV = append(ls.extraV, valVar)
			}
			ls.atHead = func(t *State, first bool) {
				if keyVar != nil {
					ex.declVarNoBox(t, keyVar, scalar(keyVar.Type(), t.ghost[hname].term()))
				}
			}
			ls.facts = func(t *State) []*Term {
				k := t.ghost[hname].term()
				return []*Term{Le(IntLit(0), k), Le(k, n)}
			}
			ls.cond = func(t *State) *Term { return Lt(t.ghost[hname].term(), n) }
			wname := fmt.Sprintf("$w%d", ord)
			ls.body = func(t *State) Outcomes {
				k := t.ghost[hname].term()
				if keyVar != nil {
					ex.declVar(t, keyVar, scalar(keyVar.Type(), k))
				}
				w := Fresh("runewidth", SInt)
				t.assume(And(Le(IntLit(1), w), Le(w, IntLit(4)), Le(Add(k, w), n)))
				t.ghost[wname] = intVal(w)
				if valVar != nil {
					r := Fresh("rune", SInt)
					t.assume(And(Le(IntLit(0), r), Le(r, IntLit(0x10FFFF))))
					ex.declVar(t, valVar, scalar(valVar.Type(), r))
				}
				return ex.execBlock(t, s.Body.List)
			}
			ls.post = func(t *State) {
				w, ok := t.ghost[wname]
				if !ok {
					w = intVal(IntLit(1))
				}
				t.ghost[hname] = intVal(Add(t.ghost[hname].term(), w.term()))
			}
			st.ghost[wname] = intVal(IntLit(1))
			ls.hidden = append(ls.hidden, wname)
			return ex.runLoop(st, ls)
		}
	}
	ex.unsupported(s, "range over %v", xt)
	return Outcomes{}
}

func (ex *Exec) declVarNoBox(st *State, o *types.Var, v Val) {
	if ex.boxed[o] {
		if _, ok := st.vars[o]; ok {
			ex.setVar(st, o, v)
			return
		}
		ex.declVar(st, o, v)
		return
	}
	st.vars[o] = v
}

// ---- modified sets ----

type ModSet struct {
	vars  map[*types.Var]bool
	heaps map[string]Sort
	alloc bool
	// locs: per heap, the variables whose field is stored (x.f = ...); whole: stores
	// through anything else
	locs  map[string][]ast.Expr
	whole map[string]bool
	// noFrame: written wholesale by a library deserialiser (no frame invariant is attempted)
	noFrame map[string]bool
}

func newModSet() *ModSet {
	return &ModSet{vars: map[*types.Var]bool{}, heaps: map[string]Sort{}, locs: map[string][]ast.Expr{}, whole: map[string]bool{}, noFrame: map[string]bool{}}
}

func (m *ModSet) addAll(o *ModSet) {
	for k := range o.vars {
		m.vars[k] = true
	}
	for k, s := range o.heaps {
		m.heaps[k] = s
		m.whole[k] = true
	}
	for k := range o.noFrame {
		m.noFrame[k] = true
	}
	if o.alloc {
		m.alloc = true
	}
}

func (m *ModSet) heapNames() []string {
	var ks []string
	for k := range m.heaps {
		ks = append(ks, k)
	}
	sort.Strings(ks)
	return ks
}

func (ex *Exec) havocFor(st *State, m *ModSet, tag string) {
	if m == nil {
		return
	}
	if m.alloc {
		nc := Fresh("ctr."+tag, SInt)
		st.assume(Ge(nc, st.ctr))
		st.ctr = nc
	}
	var vs []*types.Var
	for v := range m.vars {
		vs = append(vs, v)
	}
	sort.Slice(vs, func(i, j int) bool { return vs[i].Pos() < vs[j].Pos() })
	for _, v := range vs {
		if _, ok := st.vars[v]; !ok || ex.boxed[v] {
			continue
		}
		nv := freshVal(v.Name()+"."+tag, v.Type())
		st.vars[v] = nv
		st.assumeAll(typeFacts(nv))
		st.assumeAll(ex.allocFacts(st, nv))
	}
	for _, h := range m.heapNames() {
		srt := m.heaps[h]
		if !m.whole[h] && len(m.locs[h]) > 0 {
			// stores only through loop-invariant base expressions: havoc those locations only
			ok := true
			for _, e := range m.locs[h] {
				if !ex.loopInvariantExpr(e, m) {
					ok = false
				}
			}
			if ok {
				cur := st.heapGet(h, srt)
				_, el := arrParts(srt)
				for _, e := range m.locs[h] {
					ref, good := ex.evalQuiet(st, e)
					if !good {
						ok = false
						break
					}
					fv := Fresh(h+"."+tag, el)
					cur = Store(cur, ref, fv)
					if info, okI := heapCompInfo[h]; okI && !info.nested {
						switch info.kind {
						case CRef, CArrID, CMap:
							st.assume(And(Le(IntLit(0), fv), Lt(fv, st.ctr)))
						case CSliceI:
							st.assume(Le(IntLit(0), fv))
						case CInt:
							if lo, hi, okR := intRange(info.t); okR {
								st.assume(And(Le(lo, fv), Le(fv, hi)))
							}
						}
					} else if okI && info.nested {
						registerHeapAxiomInner(fv, info, st.ctr)
					}
				}
				if ok {
					st.heap[h] = cur
					continue
				}
			}
		}
		sym := Fresh(h+"."+tag, srt)
		heapSorts[h] = srt
		registerHeapAxiom(sym, h, st.ctr)
		st.heap[h] = sym
	}
	ex.mutCount++
}

// freshLike makes an unconstrained value with the same component sorts as v.
func freshLike(prefix string, v Val) Val {
	out := Val{T: v.T, C: make([]*Term, len(v.C))}
	for i, c := range v.C {
		out.C[i] = Fresh(prefix, c.sort)
	}
	return out
}

// loopInvariantExpr: e is built from variables and heap fields the loop does not modify.
func (ex *Exec) loopInvariantExpr(e ast.Expr, m *ModSet) bool {
	switch x := unparen(e).(type) {
	case *ast.Ident:
		o, ok := ex.P.Info.Uses[x].(*types.Var)
		if !ok {
			return false
		}
		if o.Pkg() != nil && o.Parent() == o.Pkg().Scope() {
			return true
		}
		return !m.vars[o] && !ex.boxed[o]
	case *ast.SelectorExpr:
		sel, ok := ex.P.Info.Selections[x]
		if !ok || sel.Kind() != types.FieldVal || len(sel.Index()) != 1 {
			return false
		}
		if !ex.loopInvariantExpr(x.X, m) {
			return false
		}
		t := ex.typeOf(x.X)
		if p, ok := t.Underlying().(*types.Pointer); ok {
			f := findField(p.Elem(), x.Sel.Name)
			if f == nil {
				return false
			}
			for _, c := range flatten(f.Type()) {
				if _, mod := m.heaps[fieldHeapName(p.Elem(), x.Sel.Name, c)]; mod {
					return false
				}
			}
		}
		return true
	}
	return false
}

// evalQuiet evaluates a pure expression without recording obligations or facts.
func (ex *Exec) evalQuiet(st *State, e ast.Expr) (ref *Term, ok bool) {
	nObl := len(ex.Obls)
	cnt := map[string]int{}
	for k, v := range ex.oblCount {
		cnt[k] = v
	}
	tmp := st.clone()
	defer func() {
		ex.Obls = ex.Obls[:nObl]
		ex.oblCount = cnt
		if r := recover(); r != nil {
			if _, isU := r.(undecided); isU {
				ok = false
				return
			}
			panic(r)
		}
	}()
	v := ex.eval(tmp, e)
	return v.C[0], true
}

// registerHeapAxiomInner: type invariant for one inner array (Array K tau) of a nested heap.
func registerHeapAxiomInner(inner *Term, info heapInfo, ctr *Term) {
	idx, _ := arrParts(inner.sort)
	i := BVar("i", idx)
	sel := Select(inner, i)
	var body *Term
	switch info.kind {
	case CRef, CArrID, CMap:
		body = And(Lt(sel, ctr), Ge(sel, IntLit(0)))
	case CSliceI:
		body = Ge(sel, IntLit(0))
	case CInt:
		if lo, hi, ok := intRange(info.t); ok {
			body = And(Le(lo, sel), Le(sel, hi))
		}
	}
	if body != nil {
		addAxiomFor(inner.op, Forall([]*Term{i}, body, []*Term{sel}))
	}
}

// splitPending forks states on their pending split conditions (specialising
// every term), as long as the number of paths stays small.
func (ex *Exec) splitPending(sts []*State) []*State {
	var out []*State
	for _, st := range sts {
		work := []*State{st}
		for len(work) > 0 {
			cur := work[0]
			work = work[1:]
			if len(cur.pendingSplits) == 0 || len(out)+len(work) >= maxPaths {
				cur.pendingSplits = nil
				out = append(out, cur)
				continue
			}
			c := cur.pendingSplits[0]
			cur.pendingSplits = cur.pendingSplits[1:]
			work = append(work, cur.specialize(c, true), cur.specialize(c, false))
		}
	}
	return out
}

// mergeClosest reduces the number of paths to at most max by repeatedly merging
// the two states that share the longest common prefix of facts (i.e. that were
// forked most recently), so that the resulting ite terms stay local.
func mergeClosest(sts []*State, max int) []*State {
	common := func(a, b *State) int {
		n := len(a.facts)
		if len(b.facts) < n {
			n = len(b.facts)
		}
		for i := 0; i < n; i++ {
			if a.facts[i] != b.facts[i] {
				return i
			}
		}
		return n
	}
	for len(sts) > max {
		bi, bj, best := 0, 1, -1
		for i := 0; i < len(sts); i++ {
			for j := i + 1; j < len(sts); j++ {
				if c := common(sts[i], sts[j]); c > best {
					bi, bj, best = i, j, c
				}
			}
		}
		m := mergeMany([]*State{sts[bi], sts[bj]}, best)
		var next []*State
		for k, s := range sts {
			if k != bi && k != bj {
				next = append(next, s)
			}
		}
		sts = append(next, m)
	}
	return sts
}

// varCandidates: candidate invariants about local variables modified by the loop:
// pointers that stay non-nil, counters that only grow / shrink, accumulators whose length only
// grows, index variables that stay within the slices they index. Candidates whose entry
// condition is not immediate are checked on the entry state first.
func (ex *Exec) varCandidates(st, entrySt *State, ls loopShape) []autoCand {
	if ls.mod == nil || entrySt == nil {
		return nil
	}
	var out []autoCand
	var needEntry []autoCand
	var vs []*types.Var
	for v := range ls.mod.vars {
		vs = append(vs, v)
	}
	sort.Slice(vs, func(i, j int) bool { return vs[i].Pos() < vs[j].Pos() })
	for _, v := range vs {
		v := v
		ev, ok := entrySt.vars[v]
		if !ok || ex.boxed[v] {
			continue
		}
		if _, ok := st.vars[v]; !ok {
			continue
		}
		if ex.pre != nil {
			// every reference held in the variable (struct components included) is nil or was
			// allocated during this call
			cs := flatten(v.Type())
			var idx []int
			for i, c := range cs {
				switch c.Kind {
				case CRef, CArrID, CMap:
					idx = append(idx, i)
				}
			}
			if _, isSl := v.Type().Underlying().(*types.Slice); !isSl && len(idx) > 0 && len(cs) == len(ev.C) {
				c0 := ex.pre.ctr
				needEntry = append(needEntry, autoCand{name: "freshrefs:" + v.Name(), at: func(s *State) *Term {
					x, ok := s.vars[v]
					if !ok || len(x.C) != len(cs) {
						return True
					}
					var all []*Term
					for _, i := range idx {
						all = append(all, Or(Eq(x.C[i], IntLit(0)), Ge(x.C[i], c0)))
					}
					return And(all...)
				}})
			}
		}
		switch u := v.Type().Underlying().(type) {
		case *types.Pointer, *types.Map:
			_ = u
			needEntry = append(needEntry, autoCand{name: "nonnil:" + v.Name(), at: func(s *State) *Term {
				x, ok := s.vars[v]
				if !ok {
					return True
				}
				return Neq(x.C[0], IntLit(0))
			}})
		case *types.Slice:
			if _, isPtr := u.Elem().Underlying().(*types.Pointer); isPtr {
				et := u.Elem()
				needEntry = append(needEntry, autoCand{name: "elemsnonnil:" + v.Name(), at: func(s *State) *Term {
					x, ok := s.vars[v]
					if !ok {
						return True
					}
					p := sliceParts(x)
					_, h := s.elemHeap(et, flatten(et)[0])
					q := BVar("q", SInt)
					sel := Select(Select(h, p.arr), q)
					return Forall([]*Term{q}, Implies(And(Le(p.off, q), Lt(q, Add(p.off, p.len))), Neq(sel, IntLit(0))), []*Term{sel})
				}})
			}
			if ex.pre != nil {
				c0 := ex.pre.ctr
				needEntry = append(needEntry, autoCand{name: "freshslice:" + v.Name(), at: func(s *State) *Term {
					x, ok := s.vars[v]
					if !ok {
						return True
					}
					return Or(Eq(x.C[0], IntLit(0)), Ge(x.C[0], c0))
				}})
			}
			{
				// the backing array is the one the loop was entered with, or was allocated during the loop
				a0 := ev.C[0]
				ec := entrySt.ctr
				out = append(out, autoCand{name: "loopfresh:" + v.Name(), at: func(s *State) *Term {
					x, ok := s.vars[v]
					if !ok {
						return True
					}
					return Or(Eq(x.C[0], a0), Ge(x.C[0], ec))
				}})
			}
			e0 := ev.C[2]
			out = append(out, autoCand{name: "lengrows:" + v.Name(), at: func(s *State) *Term {
				x, ok := s.vars[v]
				if !ok {
					return True
				}
				return Ge(x.C[2], e0)
			}})
		case *types.Basic:
			if u.Info()&types.IsInteger != 0 {
				e0 := ev.C[0]
				out = append(out, autoCand{name: "grows:" + v.Name(), at: func(s *State) *Term {
					x, ok := s.vars[v]
					if !ok {
						return True
					}
					return Ge(x.C[0], e0)
				}})
				out = append(out, autoCand{name: "shrinks:" + v.Name(), at: func(s *State) *Term {
					x, ok := s.vars[v]
					if !ok {
						return True
					}
					return Le(x.C[0], e0)
				}})
			}
		}
	}
	// local maps with pointer values whose entries the loop writes: every stored value is non-nil
	var mvs []*types.Var
	for o := range st.vars {
		if v, ok := o.(*types.Var); ok {
			mvs = append(mvs, v)
		}
	}
	sort.Slice(mvs, func(i, j int) bool { return mvs[i].Pos() < mvs[j].Pos() })
	for _, v := range mvs {
		v := v
		mt, isMap := v.Type().Underlying().(*types.Map)
		if !isMap || ex.boxed[v] {
			continue
		}
		if _, ptrVal := mt.Elem().Underlying().(*types.Pointer); !ptrVal {
			continue
		}
		if _, mod := ls.mod.heaps[mapHeapBase(v.Type())+"$dom"]; !mod {
			continue
		}
		mtype := v.Type()
		needEntry = append(needEntry, autoCand{name: "mapvalsnonnil:" + v.Name(), at: func(s *State) *Term {
			x, ok := s.vars[v]
			if !ok {
				return True
			}
			k := BVar("k", mapKeySort(mtype))
			has := s.mapHas(x, k)
			val := s.mapGetRaw(x, k)
			return Forall([]*Term{k}, Implies(And(Neq(x.C[0], IntLit(0)), has), Neq(val.C[0], IntLit(0))), []*Term{has})
		}})
	}
	// reference fields of the structs pointer parameters point to: still the value they had at
	// function entry, nil, or allocated during this call
	if paramRelativeLoopFrames && ex.pre != nil && ex.curFn != nil && len(ex.inlineStack) == 0 {
		c0 := ex.pre.ctr
		for _, p := range ex.paramList(ex.curFn) {
			pv, ok := ex.pre.vars[p]
			if !ok || ex.boxed[p] || len(pv.C) != 1 {
				continue
			}
			pt, ok := p.Type().Underlying().(*types.Pointer)
			if !ok {
				continue
			}
			stT, ok := pt.Elem().Underlying().(*types.Struct)
			if !ok || isOpaqueStruct(pt.Elem()) {
				continue
			}
			pref := pv.C[0]
			for i := 0; i < stT.NumFields(); i++ {
				fld := stT.Field(i)
				for _, c := range flatten(fld.Type()) {
					if c.Kind != CRef && c.Kind != CArrID && c.Kind != CMap {
						continue
					}
					h := fieldHeapName(pt.Elem(), fld.Name(), c)
					if _, mod := ls.mod.heaps[h]; !mod {
						continue
					}
					srt := SArr(SInt, c.Sort)
					pre0 := Select(ex.pre.heapGet(h, srt), pref)
					needEntry = append(needEntry, autoCand{name: "fieldfresh:" + p.Name() + "." + describeHeapName(h), at: func(s *State) *Term {
						cur := Select(s.heapGet(h, srt), pref)
						return Or(Eq(cur, pre0), Eq(cur, IntLit(0)), Ge(cur, c0))
					}})
				}
			}
		}
	}
	// index variables: X[v] in the loop with v an integer variable modified by the loop
	seen := map[string]bool{}
	var scan func(n ast.Node)
	scan = func(n ast.Node) {
		if n == nil || isNilNode(n) {
			return
		}
		ast.Inspect(n, func(nd ast.Node) bool {
			ix, ok := nd.(*ast.IndexExpr)
			if !ok {
				return true
			}
			id, ok := unparen(ix.Index).(*ast.Ident)
			if !ok {
				return true
			}
			v, ok := ex.P.Info.Uses[id].(*types.Var)
			if !ok || !ls.mod.vars[v] || !isInteger(v.Type()) || ex.boxed[v] {
				return true
			}
			xt := ex.typeOf(ix.X)
			if _, isSl := xt.Underlying().(*types.Slice); !isSl && !isString(xt) {
				return true
			}
			key := ex.exprStr(ix.X) + "[" + id.Name + "]"
			if seen[key] {
				return true
			}
			seen[key] = true
			X := ix.X
			lenOf := func(s *State) (*Term, *Term, bool) {
				iv, ok := s.vars[v]
				if !ok {
					return nil, nil, false
				}
				nObl := len(ex.Obls)
				cnt := map[string]int{}
				for k, c := range ex.oblCount {
					cnt[k] = c
				}
				tmp := s.clone()
				var ln *Term
				good := func() (g bool) {
					defer func() {
						ex.Obls = ex.Obls[:nObl]
						ex.oblCount = cnt
						if r := recover(); r != nil {
							if _, isU := r.(undecided); isU {
								g = false
								return
							}
							panic(r)
						}
					}()
					xv := ex.eval(tmp, X)
					if isString(xv.T) {
						ln = StrLen(xv.term())
					} else {
						ln = xv.C[2]
					}
					return true
				}()
				if !good {
					return nil, nil, false
				}
				return iv.C[0], ln, true
			}
			needEntry = append(needEntry, autoCand{name: "idx-lt:" + key, at: func(s *State) *Term {
				i, ln, ok := lenOf(s)
				if !ok {
					return False
				}
				return Lt(i, ln)
			}})
			needEntry = append(needEntry, autoCand{name: "idx-le:" + key, at: func(s *State) *Term {
				i, ln, ok := lenOf(s)
				if !ok {
					return False
				}
				return Le(i, ln)
			}})
			needEntry = append(needEntry, autoCand{name: "idx-ge0:" + id.Name, at: func(s *State) *Term {
				iv, ok := s.vars[v]
				if !ok {
					return False
				}
				return Le(IntLit(0), iv.C[0])
			}})
			return true
		})
	}
	switch l := ls.stmt.(type) {
	case *ast.ForStmt:
		scan(l.Body)
		if l.Cond != nil {
			scan(l.Cond)
		}
	case *ast.RangeStmt:
		scan(l.Body)
	}
	// entry checks
	if len(needEntry) > 0 {
		var goals []*Obligation
		for i, c := range needEntry {
			goals = append(goals, &Obligation{Name: fmt.Sprintf("%s#auto-entry#%d", ex.Fn.Key, i), Kind: "auto-inv", Func: ex.Fn.Key,
				Facts: append([]*Term(nil), entrySt.facts...), Goal: c.at(entrySt), Auto: true})
		}
		ex.quickSolve(goals)
		for i, g := range goals {
			if g.Status == "proved" {
				out = append(out, needEntry[i])
			}
		}
	}
	return out
}

// autoVariant derives a variant from the condition of a three-clause or while-style loop.
func (ex *Exec) autoVariant(ls loopShape) func(s *State) (*Term, bool) {
	fs, ok := ls.stmt.(*ast.ForStmt)
	if !ok || fs.Cond == nil {
		return nil
	}
	be, ok := unparen(fs.Cond).(*ast.BinaryExpr)
	if !ok {
		return nil
	}
	if !isInteger(ex.typeOf(be.X)) || !isInteger(ex.typeOf(be.Y)) {
		return nil
	}
	evalQuiet := func(s *State, e ast.Expr) (t *Term, good bool) {
		nObl := len(ex.Obls)
		cnt := map[string]int{}
		for k, c := range ex.oblCount {
			cnt[k] = c
		}
		tmp := s.clone()
		defer func() {
			ex.Obls = ex.Obls[:nObl]
			ex.oblCount = cnt
			if r := recover(); r != nil {
				if _, isU := r.(undecided); isU {
					good = false
					return
				}
				panic(r)
			}
		}()
		return ex.eval(tmp, e).term(), true
	}
	var hi, lo ast.Expr
	extra := int64(0)
	switch be.Op.String() {
	case "<":
		lo, hi = be.X, be.Y
	case "<=":
		lo, hi, extra = be.X, be.Y, 1
	case ">":
		lo, hi = be.Y, be.X
	case ">=":
		lo, hi, extra = be.Y, be.X, 1
	default:
		return nil
	}
	return func(s *State) (*Term, bool) {
		a, ok1 := evalQuiet(s, hi)
		b, ok2 := evalQuiet(s, lo)
		if !ok1 || !ok2 {
			return nil, false
		}
		return Add(Sub(a, b), IntLit(extra)), true
	}
}

// mapRangeOrderFree: the map-range statement s of the current function (a) has a body consisting
// of the single statement `x = append(x, e)` where x is a local slice and e mentions only the range
// variables, and (b) is directly followed by sort.Strings(x) / sort.Ints(x): the sorted
// sequence of a multiset is unique, so what follows does not depend on the iteration order; or
// (c) has a body that only stores into another map under the range key (m2[k] = f(k, v)) or deletes
// from one: map contents do not record insertion order.
func (ex *Exec) mapRangeOrderFree(s *ast.RangeStmt) (bool, string) {
	if ex.curFn == nil || ex.curFn.Body == nil {
		return false, "unknown-context"
	}
	rangeVars := map[types.Object]bool{}
	for _, e := range []ast.Expr{s.Key, s.Value} {
		if id, ok := e.(*ast.Ident); ok && id.Name != "_" {
			if o := ex.P.Info.Defs[id]; o != nil {
				rangeVars[o] = true
			} else if o := ex.P.Info.Uses[id]; o != nil {
				rangeVars[o] = true
			}
		}
	}
	onlyRangeVars := func(e ast.Expr) bool {
		ok := true
		ast.Inspect(e, func(n ast.Node) bool {
			if id, isId := n.(*ast.Ident); isId {
				if v, isVar := ex.P.Info.Uses[id].(*types.Var); isVar && !v.IsField() && !rangeVars[v] {
					ok = false
				}
			}
			if _, isCall := n.(*ast.CallExpr); isCall {
				ok = false
			}
			return ok
		})
		return ok
	}
	if len(s.Body.List) == 0 {
		return true, "empty-body"
	}
	// (c) stores into a map under the range key only
	allMapStores := true
	for _, st := range s.Body.List {
		switch x := st.(type) {
		case *ast.AssignStmt:
			if len(x.Lhs) != 1 || len(x.Rhs) != 1 {
				allMapStores = false
				break
			}
			ix, ok := unparen(x.Lhs[0]).(*ast.IndexExpr)
			if !ok {
				allMapStores = false
				break
			}
			if _, isMap := ex.typeOf(ix.X).Underlying().(*types.Map); !isMap || !onlyRangeVars(ix.Index) || !onlyRangeVars(x.Rhs[0]) {
				allMapStores = false
			}
		default:
			allMapStores = false
		}
	}
	if allMapStores {
		return true, "stores-under-range-key"
	}
	if len(s.Body.List) != 1 {
		return false, "body-depends-on-iteration-order"
	}
	as, ok := s.Body.List[0].(*ast.AssignStmt)
	if !ok || len(as.Lhs) != 1 || len(as.Rhs) != 1 {
		return false, "body-depends-on-iteration-order"
	}
	lhs, ok := unparen(as.Lhs[0]).(*ast.Ident)
	if !ok {
		return false, "body-depends-on-iteration-order"
	}
	call, ok := unparen(as.Rhs[0]).(*ast.CallExpr)
	if !ok || len(call.Args) != 2 || call.Ellipsis.IsValid() {
		return false, "body-depends-on-iteration-order"
	}
	if fn, ok := unparen(call.Fun).(*ast.Ident); !ok || fn.Name != "append" {
		return false, "body-depends-on-iteration-order"
	}
	if a0, ok := unparen(call.Args[0]).(*ast.Ident); !ok || ex.P.Info.Uses[a0] != ex.P.Info.Uses[lhs] {
		return false, "body-depends-on-iteration-order"
	}
	if !onlyRangeVars(call.Args[1]) {
		return false, "body-depends-on-iteration-order"
	}
	acc := ex.P.Info.Uses[lhs]
	// (b) the statement after the loop sorts the accumulator
	var next ast.Stmt
	ast.Inspect(ex.curFn.Body, func(n ast.Node) bool {
		var list []ast.Stmt
		switch b := n.(type) {
		case *ast.BlockStmt:
			list = b.List
		case *ast.CaseClause:
			list = b.Body
		}
		for i, st := range list {
			if st == ast.Stmt(s) && i+1 < len(list) {
				next = list[i+1]
			}
		}
		return next == nil
	})
	if es, ok := next.(*ast.ExprStmt); ok {
		if c, ok := es.X.(*ast.CallExpr); ok && len(c.Args) == 1 {
			if ex.isPkgFunc(c.Fun, "sort", "Strings") || ex.isPkgFunc(c.Fun, "sort", "Ints") {
				if a, ok := unparen(c.Args[0]).(*ast.Ident); ok && ex.P.Info.Uses[a] == acc {
					return true, "collect-then-sort"
				}
			}
		}
	}
	return false, "collected-keys-not-sorted-before-use"
}

// sharedObjectStore (C20): a store through a pointer-to-struct/array or a map whose type is also
// the type of a package-level variable must not hit that shared object: one obligation
// `base != <the package-level value>` per such variable. (Slices are not covered: byte buffers are
// written everywhere and share their type with the package's byte constants.)
func (ex *Exec) sharedObjectStore(st *State, lhs ast.Expr) {
	if !sweepMode || ex.frameProbe {
		return
	}
	var base ast.Expr
	switch l := unparen(lhs).(type) {
	case *ast.IndexExpr:
		base = l.X
	case *ast.SelectorExpr:
		if _, ok := ex.P.Info.Selections[l]; !ok {
			return
		}
		base = l.X
	case *ast.StarExpr:
		base = l.X
	default:
		return
	}
	bt := ex.typeOf(base)
	if bt == nil {
		return
	}
	switch u := bt.Underlying().(type) {
	case *types.Pointer:
		switch u.Elem().Underlying().(type) {
		case *types.Struct, *types.Array:
		default:
			return
		}
	case *types.Map:
	default:
		return
	}
	scope := ex.P.Pkg.Types.Scope()
	var gs []*types.Var
	for _, n := range scope.Names() {
		if v, ok := scope.Lookup(n).(*types.Var); ok && types.Identical(v.Type(), bt) {
			gs = append(gs, v)
		}
	}
	if len(gs) == 0 {
		return
	}
	r, ok := ex.evalQuiet(st, base)
	if !ok {
		return
	}
	var all []*Term
	for _, g := range gs {
		all = append(all, Neq(r, ex.globalVal(g).C[0]))
	}
	ex.obligNoAssume(st, "global-write", lhs, fmt.Sprintf("store through %s must not hit a shared package-level object of type %s", ex.exprStr(base), types.TypeString(bt, func(*types.Package) string { return "" })), And(all...))
}

// fnHanded: the objects handed to the current function (deep, read in its entry state).
func (ex *Exec) fnHanded() []handedRef {
	if ex.handedMemo != nil {
		return ex.handedMemo
	}
	var params []Val
	for _, p := range ex.paramList(ex.curFn) {
		if v, ok := ex.pre.vars[p]; ok {
			if ex.boxed[p] {
				v = ex.pre.loadStruct(v.C[0], p.Type())
			}
			params = append(params, v)
		}
	}
	ex.handedMemo = handedRefsDeep(ex.pre, params)
	if ex.handedMemo == nil {
		ex.handedMemo = []handedRef{}
	}
	return ex.handedMemo
}

// paramRelativeLoopFrames: experimental Houdini candidates (frames relative to the objects handed
// to the function, fields of pointer parameters that are old-or-fresh). They did not discharge
// anything the other candidates do not on this code base and are switched off.
var paramRelativeLoopFrames = os.Getenv("GOVC_FRAMEP") != ""
