package main

// Zero-annotation safety sweep: every function of the package is executed
// symbolically under its contract's preconditions (or none); every potentially
// panicking operation is an obligation.

import (
	"encoding/json"
	"flag"
	"fmt"
	"os"
	"path/filepath"
	"runtime"
	"sort"
	"strings"
	"time"
)

func sweepFuncs(p *Program) []string {
	var out []string
	for _, k := range p.sortedFuncKeys() {
		fi := p.Funcs[k]
		if fi.Lit != nil {
			continue // closures are covered where they are inlined
		}
		if fi.Contract != nil && fi.Contract.Opts["trusted"] != "" {
			continue
		}
		out = append(out, k)
	}
	return out
}

func cmdSweep(args []string) int {
	fs := flag.NewFlagSet("sweep", flag.ExitOnError)
	timeout := fs.Int("t", 10, "solver timeout")
	only := fs.String("f", "", "comma-separated function keys")
	outFile := fs.String("out", "", "write the results as JSON (worker mode)")
	par := fs.Int("par", runtime.NumCPU(), "parallel solver runs")
	vcDir := fs.String("vc", "sweep", "sub-directory of work/vc for the scripts")
	shard := fs.Int("j", 0, "run sharded over this many worker processes")
	fs.Parse(args)
	p, err := loadAll(nil)
	if err != nil {
		fmt.Fprintln(os.Stderr, err)
		return 2
	}
	sweepMode = true
	maxPaths = 2
	keys := sweepFuncs(p)
	if *only != "" {
		keys = strings.Split(*only, ",")
	}
	workDir := filepath.Join(verifDir, "work", "vc", *vcDir)
	t0 := time.Now()
	var all []*Obligation
	var results []*FuncResult
	if *shard > 0 {
		rs, _ := runSweepSharded(p, keys, *timeout, *shard)
		return reportSweep(rs, t0)
	}
	for _, k := range keys {
		t1 := time.Now()
		res := generateOne(p, k, workDir, false)
		if os.Getenv("GOVC_NOTES") != "" {
			for _, n := range res.Notes {
				fmt.Fprintln(os.Stderr, "   note:", n)
			}
		}
		fmt.Fprintf(os.Stderr, "gen %-45s %6d obls %6.1fs %s\n", k, len(res.Obls), time.Since(t1).Seconds(), trunc(res.Undecided, 80))
		if os.Getenv("GOVC_HOUDINI") != "" {
			fmt.Fprintf(os.Stderr, "  quick-solve: %d calls, %d goals (%d to stage 2), wall %.1fs\n", quickStats.calls, quickStats.goals, quickStats.stage2, quickStats.wall.Seconds())
		}
		results = append(results, res)
		all = append(all, res.Obls...)
	}
	fmt.Printf("generated %d obligations for %d functions in %.1fs\n", len(all), len(keys), time.Since(t0).Seconds())
	d := &Discharger{WorkDir: workDir, TimeoutS: *timeout, Seed: 1, Par: *par, Retry: false}
	solveAll(all, d)
	if *outFile != "" {
		for _, o := range all {
			o.Output = trunc(o.Output, 1500)
		}
		b, _ := json.Marshal(results)
		os.WriteFile(*outFile, b, 0o644)
		if *vcDir != "sweep" {
			// keep only the scripts of obligations that were not discharged (for the replay files)
			for _, o := range all {
				if o.Status == "proved" || o.Canary || o.Auto {
					os.Remove(o.File)
					if o.FileF != "" {
						os.Remove(o.FileF)
					}
				}
			}
		}
		return 0
	}
	return reportSweep(results, t0)
}

func reportSweep(results []*FuncResult, t0 time.Time) int {
	bad := 0
	nAll := 0
	for _, r := range results {
		nAll += len(r.Obls)
	}
	for _, r := range results {
		if r.Undecided != "" {
			fmt.Printf("UNDECIDED %s: %s\n", r.Key, r.Undecided)
			continue
		}
		var fails []string
		for _, o := range r.Obls {
			if o.Canary || o.Status == "proved" {
				continue
			}
			fails = append(fails, fmt.Sprintf("    %-8s %s (%s)", o.Status, o.Name, o.Pos))
		}
		if len(fails) > 0 {
			bad += len(fails)
			sort.Strings(fails)
			fmt.Printf("%s: %d/%d not proved\n%s\n", r.Key, len(fails), len(r.Obls), strings.Join(fails, "\n"))
		}
	}
	fmt.Printf("total: %d obligations, %d not proved, %.1fs\n", nAll, bad, time.Since(t0).Seconds())
	return 0
}
