package main

// Parser for the contract expression language (Go expression syntax plus
// ==>, <==>, forall/exists, old(), ++, c ? a : b, let x = e in e).

import (
	"fmt"
	"strings"
	"unicode"
)

type SExpr struct {
	Op    string // "int","str","id","bin","un","call","sel","idx","slice","quant","old","ite","let","float"
	Tok   string // operator / identifier / literal
	Args  []*SExpr
	Binds []Binder
	Trig  [][]*SExpr
	Src   string
}

type Binder struct {
	Name string
	Type string
}

func (e *SExpr) String() string {
	switch e.Op {
	case "int", "id", "float":
		return e.Tok
	case "str":
		return fmt.Sprintf("%q", e.Tok)
	case "bin":
		return "(" + e.Args[0].String() + " " + e.Tok + " " + e.Args[1].String() + ")"
	case "un":
		return e.Tok + e.Args[0].String()
	case "call":
		var as []string
		for _, a := range e.Args[1:] {
			as = append(as, a.String())
		}
		return e.Args[0].String() + "(" + strings.Join(as, ", ") + ")"
	case "sel":
		return e.Args[0].String() + "." + e.Tok
	case "idx":
		return e.Args[0].String() + "[" + e.Args[1].String() + "]"
	case "slice":
		s := e.Args[0].String() + "["
		if e.Args[1] != nil {
			s += e.Args[1].String()
		}
		s += ":"
		if e.Args[2] != nil {
			s += e.Args[2].String()
		}
		return s + "]"
	case "quant":
		var bs []string
		for _, b := range e.Binds {
			bs = append(bs, b.Name+" "+b.Type)
		}
		return "(" + e.Tok + " " + strings.Join(bs, ", ") + " :: " + e.Args[0].String() + ")"
	case "old":
		return "old(" + e.Args[0].String() + ")"
	case "ite":
		return "(" + e.Args[0].String() + " ? " + e.Args[1].String() + " : " + e.Args[2].String() + ")"
	case "let":
		return "(let " + e.Tok + " = " + e.Args[0].String() + " in " + e.Args[1].String() + ")"
	}
	return "?" + e.Op
}

type stok struct {
	kind string // id, int, float, str, op, eof
	text string
}

func specLex(src string) ([]stok, error) {
	var out []stok
	i := 0
	ops := []string{"<==>", "==>", "::", "++", "&&", "||", "==", "!=", "<=", ">=", "<<", ">>", "(", ")", "[", "]", "{", "}", ",", ".", ":", "?", "+", "-", "*", "/", "%", "<", ">", "!", "=", "&", "|", "^"}
	for i < len(src) {
		c := src[i]
		if c == ' ' || c == '\t' || c == '\n' || c == '\r' {
			i++
			continue
		}
		if c == '/' && i+1 < len(src) && src[i+1] == '/' {
			break // trailing comment
		}
		if unicode.IsLetter(rune(c)) || c == '_' || c == '$' {
			j := i + 1
			for j < len(src) && (unicode.IsLetter(rune(src[j])) || unicode.IsDigit(rune(src[j])) || src[j] == '_' || src[j] == '$') {
				j++
			}
			out = append(out, stok{"id", src[i:j]})
			i = j
			continue
		}
		if unicode.IsDigit(rune(c)) {
			j := i + 1
			isF := false
			for j < len(src) && (unicode.IsDigit(rune(src[j])) || src[j] == '_' || src[j] == 'x' || (src[j] >= 'a' && src[j] <= 'f') || (src[j] >= 'A' && src[j] <= 'F') || (src[j] == '.' && j+1 < len(src) && unicode.IsDigit(rune(src[j+1])))) {
				if src[j] == '.' {
					isF = true
				}
				j++
			}
			if isF {
				out = append(out, stok{"float", src[i:j]})
			} else {
				out = append(out, stok{"int", strings.ReplaceAll(src[i:j], "_", "")})
			}
			i = j
			continue
		}
		if c == '"' {
			j := i + 1
			var sb strings.Builder
			for j < len(src) && src[j] != '"' {
				if src[j] == '\\' && j+1 < len(src) {
					j++
					switch src[j] {
					case 'n':
						sb.WriteByte('\n')
					case 'r':
						sb.WriteByte('\r')
					case 't':
						sb.WriteByte('\t')
					default:
						sb.WriteByte(src[j])
					}
				} else {
					sb.WriteByte(src[j])
				}
				j++
			}
			if j >= len(src) {
				return nil, fmt.Errorf("unterminated string in %q", src)
			}
			out = append(out, stok{"str", sb.String()})
			i = j + 1
			continue
		}
		matched := false
		for _, op := range ops {
			if strings.HasPrefix(src[i:], op) {
				out = append(out, stok{"op", op})
				i += len(op)
				matched = true
				break
			}
		}
		if !matched {
			return nil, fmt.Errorf("unexpected character %q in %q", c, src)
		}
	}
	out = append(out, stok{"eof", ""})
	return out, nil
}

type sparser struct {
	toks []stok
	pos  int
	src  string
}

func ParseSpec(src string) (e *SExpr, err error) {
	toks, err := specLex(src)
	if err != nil {
		return nil, err
	}
	p := &sparser{toks: toks, src: src}
	defer func() {
		if r := recover(); r != nil {
			if s, ok := r.(specErr); ok {
				err = fmt.Errorf("%s in %q", string(s), src)
				return
			}
			panic(r)
		}
	}()
	e = p.expr()
	if p.peek().kind != "eof" {
		p.fail("trailing tokens at %q", p.peek().text)
	}
	e.Src = src
	return e, nil
}

type specErr string

func (p *sparser) fail(f string, a ...interface{}) { panic(specErr(fmt.Sprintf(f, a...))) }
func (p *sparser) peek() stok                      { return p.toks[p.pos] }
func (p *sparser) next() stok                      { t := p.toks[p.pos]; p.pos++; return t }
func (p *sparser) isOp(s string) bool              { t := p.peek(); return t.kind == "op" && t.text == s }
func (p *sparser) isID(s string) bool              { t := p.peek(); return t.kind == "id" && t.text == s }
func (p *sparser) expect(s string) {
	if !p.isOp(s) {
		p.fail("expected %q, got %q", s, p.peek().text)
	}
	p.pos++
}

func (p *sparser) typeName() string {
	// *T, []T, pkg.T, T
	var sb strings.Builder
	for p.isOp("*") || p.isOp("[") {
		if p.isOp("*") {
			p.next()
			sb.WriteString("*")
		} else {
			p.next()
			p.expect("]")
			sb.WriteString("[]")
		}
	}
	t := p.next()
	if t.kind != "id" {
		p.fail("expected type name, got %q", t.text)
	}
	sb.WriteString(t.text)
	if p.isOp(".") {
		p.next()
		t2 := p.next()
		sb.WriteString("." + t2.text)
	}
	return sb.String()
}

func (p *sparser) expr() *SExpr {
	if p.isID("forall") || p.isID("exists") {
		q := p.next().text
		var binds []Binder
		for {
			var names []string
			for {
				t := p.next()
				if t.kind != "id" {
					p.fail("expected binder name, got %q", t.text)
				}
				names = append(names, t.text)
				if p.isOp(",") {
					// lookahead: "k, m int" vs "k int, x string"
					p.next()
					continue
				}
				break
			}
			ty := p.typeName()
			for _, n := range names {
				binds = append(binds, Binder{n, ty})
			}
			if p.isOp(",") {
				p.next()
				continue
			}
			break
		}
		p.expect("::")
		var trig [][]*SExpr
		for p.isOp("{") {
			p.next()
			var tr []*SExpr
			for {
				tr = append(tr, p.expr())
				if p.isOp(",") {
					p.next()
					continue
				}
				break
			}
			p.expect("}")
			trig = append(trig, tr)
		}
		body := p.expr()
		return &SExpr{Op: "quant", Tok: q, Binds: binds, Args: []*SExpr{body}, Trig: trig}
	}
	if p.isID("let") {
		p.next()
		name := p.next().text
		p.expect("=")
		v := p.expr()
		if !p.isID("in") {
			p.fail("expected 'in'")
		}
		p.next()
		body := p.expr()
		return &SExpr{Op: "let", Tok: name, Args: []*SExpr{v, body}}
	}
	c := p.implication()
	if p.isOp("?") {
		p.next()
		a := p.expr()
		p.expect(":")
		b := p.expr()
		return &SExpr{Op: "ite", Args: []*SExpr{c, a, b}}
	}
	return c
}

func (p *sparser) implication() *SExpr {
	l := p.iff()
	if p.isOp("==>") {
		p.next()
		var r *SExpr
		if p.isID("forall") || p.isID("exists") || p.isID("let") {
			r = p.expr()
		} else {
			r = p.implication()
		}
		return &SExpr{Op: "bin", Tok: "==>", Args: []*SExpr{l, r}}
	}
	return l
}

func (p *sparser) iff() *SExpr {
	l := p.or()
	for p.isOp("<==>") {
		p.next()
		r := p.or()
		l = &SExpr{Op: "bin", Tok: "<==>", Args: []*SExpr{l, r}}
	}
	return l
}

func (p *sparser) or() *SExpr {
	l := p.and()
	for p.isOp("||") {
		p.next()
		r := p.and()
		l = &SExpr{Op: "bin", Tok: "||", Args: []*SExpr{l, r}}
	}
	return l
}

func (p *sparser) and() *SExpr {
	l := p.cmp()
	for p.isOp("&&") {
		p.next()
		var r *SExpr
		if p.isID("forall") || p.isID("exists") {
			r = p.expr()
		} else {
			r = p.cmp()
		}
		l = &SExpr{Op: "bin", Tok: "&&", Args: []*SExpr{l, r}}
	}
	return l
}

func (p *sparser) cmp() *SExpr {
	l := p.add()
	for _, op := range []string{"==", "!=", "<=", ">=", "<", ">"} {
		if p.isOp(op) {
			p.next()
			r := p.add()
			return &SExpr{Op: "bin", Tok: op, Args: []*SExpr{l, r}}
		}
	}
	return l
}

func (p *sparser) add() *SExpr {
	l := p.mul()
	for p.isOp("+") || p.isOp("-") || p.isOp("++") {
		op := p.next().text
		r := p.mul()
		l = &SExpr{Op: "bin", Tok: op, Args: []*SExpr{l, r}}
	}
	return l
}

func (p *sparser) mul() *SExpr {
	l := p.unary()
	for p.isOp("*") || p.isOp("/") || p.isOp("%") {
		op := p.next().text
		r := p.unary()
		l = &SExpr{Op: "bin", Tok: op, Args: []*SExpr{l, r}}
	}
	return l
}

func (p *sparser) unary() *SExpr {
	if p.isOp("!") || p.isOp("-") || p.isOp("*") {
		op := p.next().text
		x := p.unary()
		return &SExpr{Op: "un", Tok: op, Args: []*SExpr{x}}
	}
	return p.postfix()
}

func (p *sparser) postfix() *SExpr {
	e := p.primary()
	for {
		switch {
		case p.isOp("."):
			p.next()
			t := p.next()
			if t.kind != "id" {
				p.fail("expected field name after '.'")
			}
			e = &SExpr{Op: "sel", Tok: t.text, Args: []*SExpr{e}}
		case p.isOp("["):
			p.next()
			var lo, hi *SExpr
			if !p.isOp(":") {
				lo = p.expr()
			}
			if p.isOp(":") {
				p.next()
				if !p.isOp("]") {
					hi = p.expr()
				}
				p.expect("]")
				e = &SExpr{Op: "slice", Args: []*SExpr{e, lo, hi}}
			} else {
				p.expect("]")
				e = &SExpr{Op: "idx", Args: []*SExpr{e, lo}}
			}
		case p.isOp("("):
			p.next()
			args := []*SExpr{e}
			for !p.isOp(")") {
				args = append(args, p.expr())
				if p.isOp(",") {
					p.next()
				}
			}
			p.expect(")")
			if e.Op == "id" && e.Tok == "old" && len(args) == 2 {
				e = &SExpr{Op: "old", Args: []*SExpr{args[1]}}
			} else {
				e = &SExpr{Op: "call", Args: args}
			}
		default:
			return e
		}
	}
}

func (p *sparser) primary() *SExpr {
	t := p.next()
	switch t.kind {
	case "int":
		return &SExpr{Op: "int", Tok: t.text}
	case "float":
		return &SExpr{Op: "float", Tok: t.text}
	case "str":
		return &SExpr{Op: "str", Tok: t.text}
	case "id":
		return &SExpr{Op: "id", Tok: t.text}
	case "op":
		if t.text == "(" {
			e := p.expr()
			p.expect(")")
			return e
		}
	}
	p.fail("unexpected token %q", t.text)
	return nil
}
