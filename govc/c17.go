package main

// C17, syntactic frame: the io.Reader handed to a reader function flows only
// into the delivery-independent mechanisms (the line scanner, the block reader,
// the XML decoder, the transport-stream demultiplexer).

import (
	"fmt"
	"go/ast"
	"go/types"
	"sort"
)

func c17Special(p *Program, run *CheckRun) {
	allowed := map[string]string{
		"newScanner":              "line splitter proved prefix-stable (harness splitStable)",
		"readNBytes":              "block reader proved against the io.Reader contract",
		"ReadFromSSAWithOptions":  "forwards to a reader function checked here",
		"bufio.NewScanner":        "assumed: token sequence is a function of the bytes for a prefix-stable split function",
		"io.ReadFull":             "assumed extern contract",
		"encoding/xml.NewDecoder": "assumed delivery-independent",
		"github.com/asticode/go-astits.NewDemuxer": "assumed delivery-independent",
	}
	var keys []string
	for k := range p.Funcs {
		keys = append(keys, k)
	}
	sort.Strings(keys)
	for _, k := range keys {
		fi := p.Funcs[k]
		if fi.Decl == nil {
			continue
		}
		var readers []*types.Var
		for i := 0; i < fi.Sig.Params().Len(); i++ {
			v := fi.Sig.Params().At(i)
			if n, ok := v.Type().(*types.Named); ok && n.Obj().Pkg() != nil && n.Obj().Pkg().Path() == "io" && n.Obj().Name() == "Reader" {
				readers = append(readers, v)
			}
		}
		for _, rv := range readers {
			// collect parents
			okUses, badUses := 0, []string{}
			var stack []ast.Node
			ast.Inspect(fi.Body, func(n ast.Node) bool {
				if n == nil {
					stack = stack[:len(stack)-1]
					return true
				}
				stack = append(stack, n)
				id, ok := n.(*ast.Ident)
				if !ok || p.Info.Uses[id] != rv {
					return true
				}
				// parent must be a call with id as direct argument and an allowed callee
				good := false
				if len(stack) >= 2 {
					if call, ok := stack[len(stack)-2].(*ast.CallExpr); ok {
						for _, a := range call.Args {
							if a == ast.Expr(id) {
								var name string
								switch f := unparen(call.Fun).(type) {
								case *ast.Ident:
									if o, ok := p.Info.Uses[f].(*types.Func); ok {
										name = o.Name()
									}
								case *ast.SelectorExpr:
									if o, ok := p.Info.Uses[f.Sel].(*types.Func); ok && o.Pkg() != nil {
										name = o.Pkg().Path() + "." + o.Name()
									}
								}
								if _, ok := allowed[name]; ok {
									good = true
								}
							}
						}
					}
				}
				if good {
					okUses++
				} else {
					badUses = append(badUses, p.pos(id))
				}
				return true
			})
			status := "proved"
			if len(badUses) > 0 {
				status = "refuted"
			}
			name := fmt.Sprintf("%s#reader-flow[%s]", k, rv.Name())
			run.ExtraObls = append(run.ExtraObls, map[string]interface{}{"obligation": name, "kind": "reader-flow", "status": status, "uses": okUses, "other_uses": badUses, "solver": "syntactic"})
			if status != "proved" {
				path := writeReplay(run, name, map[string]interface{}{"obligation": name, "reason": "the io.Reader parameter is used outside the delivery-independent mechanisms", "positions": badUses})
				run.Lines = append(run.Lines, fmt.Sprintf("VIOLATION property=%s replay=%s no-failing-input-found", run.ID, path))
				run.Viol++
			}
		}
	}
}
