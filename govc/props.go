package main

import "strings"

// Per-property configuration: what is claimed, what is not decided, what is assumed.

func propertyTable() map[string]PropertyCfg {
	return map[string]PropertyCfg{
		"C15": {ID: "C15",
			Assumptions: []string{
				"precondition: cue pointers non-nil and distinct, every instant (boundaries and the four reference points) in [0,24h], a1 != a2, slope in [1/2, 2] (the property's quantifier)",
				"float64 model: every operation returns the correctly rounded result of the exact real value: monotone, relative error <= 2^-53 (+1e-30 absolute for subnormals); int64->float64 is exact when the value is proved to lie within +-2^53; float64->int64 truncates toward zero; no overflow/NaN (magnitudes <= 2e14 by the preconditions); FMA contraction satisfies the same model",
				"the 1 microsecond bound is discharged as a lemma over real-valued parameters (nonlinear real arithmetic) and instantiated at each cue boundary",
			},
			NotDecided: []string{"'scales every cue's length by the slope' is implied only up to the 1 microsecond bound per boundary; not stated separately"},
		},
		"C17": {ID: "C17",
			Assumptions: []string{
				"io.Reader is modelled by a ghost byte stream (contracts/extern.gvc): Read may deliver any number of the remaining bytes, may return io.EOF with the last bytes or later, may fail; io.ReadFull as documented",
				"assumed, not proved: bufio.Scanner produces a token sequence that is a function of the byte sequence when its split function is prefix-stable (the property proved by harness splitStable) -- this is the scanner's documented buffering algorithm; encoding/xml.Decoder and astits.Demuxer are delivery-independent",
				"bytes.IndexAny(s, \"\\r\\n\"): least index of a CR or LF, or -1",
			},
			NotDecided: []string{"that the parse result as a whole is a function of the bytes follows from the three mechanisms only with the assumptions above; the readers' bodies above the scanner/block reader are deterministic sequential code (no other input source: see the reader-flow obligations)"},
			Special:    c17Special,
		},
		"C16": {ID: "C16",
			Assumptions: []string{
				"extern laws: strconv.Itoa(n) = itoa(n) (injective uninterpreted decimal rendering with length by range), strconv.FormatFloat(v,'f',0,64) = itoa(int(v)) for integral 0 <= v < 2^53, astikit.StrPad(s,'0',n,PadLeft) = strpadleft(s,48,n) of length max(len s, n), time.Duration.Nanoseconds() = int64(d), math.Pow(10,0)=1 and math.Pow(10,1)=10",
				"float kernels: the float64 expressions in formatDuration / formatDurationSTL / formatDurationSTLBytes are matched syntactically and replaced by their integer value; each replacement is justified by a QF_BVFP library lemma (contracts/fp/*.smt2, a transcription of the Go expression and of time.Duration.Hours/Minutes/Seconds from the Go 1.23 source) discharged in this run",
				"strings are an uninterpreted sort with a concatenation rope; no string theory",
			},
			NotDecided: []string{
				"that each text format's reader maps the writer's rendering back to the truncated instant (parse after format) is a fact about strings.Split/TrimSpace/Atoi composed with concatenation/Itoa: out of the verifier's reach; the thorough tier runs the real parse(format(t)) pair exhaustively on a millisecond grid as a bounded stand-in (labelled bounded, never counted as proved)",
				"parseDuration, parseDurationSTL: only panic-freedom is in scope (C08), not their functional behaviour",
			},
			Bounded: []string{"thorough tier: real parseDuration*(formatDuration*(t)) for SRT, WebVTT, SSA on every millisecond (centisecond for SSA) of [0,24h) plus unit boundaries +-1ns and hour values {0,1,9,10,23,24,99}; STL string timecodes on every frame of [0,24h) at 25 and 30 fps"},
			Special: c16Special,
		},
		"C09": {ID: "C09",
			Assumptions: []string{
				"precondition: cue pointers non-nil and pairwise distinct, start <= end per cue, |t|,|d| <= 2^62 (the property's 'cue list')",
			},
			NotDecided: []string{"the shift-then-unshift law is proved as a lemma over the contract of Add (harness addThenSub) when present; see samples"},
		},
		"C10": {ID: "C10",
			Assumptions: []string{
				"precondition: cue pointers non-nil and distinct, 0 <= start <= end <= 2^61 per cue, list ordered by start, 0 < f <= 2^61 (the property's quantifier)",
				"three arithmetic lemmas over the symbolic period f (nonlinear integer arithmetic) are discharged separately from the entry facts and used through explicit instances",
				"relies on the contract of Order (C12) and on the trusted definition of the abstract cue text (Item.String)",
			},
		},
		"C11": {ID: "C11",
			Assumptions: []string{
				"precondition: cue pointers non-nil and pairwise distinct",
				"the text of a cue is the abstract function txt = result of Item.String(), assumed to be a deterministic function of the cue's Lines (header, line and run contents); Item.String's body is a trusted definition",
			},
			NotDecided: []string{"the inverse law Unfragment(Fragment(x)) == x needs a functional specification of Unfragment as the components of the same-text-touching relation and an induction over components: not decided"},
		},
		"C12": {ID: "C12",
			Assumptions: []string{
				"precondition of Merge: receiver and argument are distinct lists, the argument's backing array is not the receiver's spare capacity, the argument's map keys equal the ID of their value",
				"sort.SliceStable: assumed contract (permutation, sorted, stable) for a comparator proved to be a strict weak order on the elements",
			},
		},
		"C13": {ID: "C13",
			Assumptions: []string{
				"precondition wfRefs: map keys equal the ID of their (non-nil) value; every parent pointer of a defined style is the value defined under its ID (references resolve before the call)",
				"closure + support characterise reachability through inheritance only on a forest of styles (first-order logic has no transitive closure); stated, not machine-checked",
				"termination of the parent walk is not proved (no cardinality measure); the walk stops at already-marked styles, hence also on cyclic parent chains",
			},
			NotDecided: []string{"'the optimized list can still be written to every format and read back with the same cues' is codec fidelity (C01-C05): not decided", "idempotence is decided as a lemma harness over the contract when harness optimizeTwice is present"},
		},
		"C08": {ID: "C08",
			Sweep: &SweepCfg{
				Parts: []string{"rest"},
				Funcs: func(p *Program) []string {
					top, _ := sweepHalves(p)
					isTop := map[string]bool{}
					for _, k := range top {
						isTop[k] = true
					}
					var out []string
					for _, k := range callTree(p, entryPoints(p)) {
						if !isTop[k] {
							out = append(out, k) // the entry points themselves are swept by C18's command
						}
					}
					return out
				},
				Select: func(o *Obligation) bool {
					switch o.Kind {
					case "assigns", "map-order", "clock", "global-write":
						return false // decided under C19 / C20
					}
					return true
				},
				Unclaimed: sweepUnclaimed,
			},
			Assumptions: []string{
				"panic sites covered: nil dereference, index and slice bounds, nil-map write, failed type assertion, division by zero, negative make size, plus every loop invariant and every precondition at its call sites; out of scope: stack overflow, out-of-memory, panics inside library functions on valid arguments",
				"a cue list 'assembled from the public types' (predicate writable): cue pointers are non-nil, map values are non-nil and keyed by their own ID; everything else (metadata, styles, regions, inline attributes, the maps themselves) may be absent",
				"termination: counted loops get an automatic variant (obligation kind decreases); range loops terminate by construction; loops driven by a scanner / tokenizer / decoder / demultiplexer terminate when that library reports the end of its finite input (assumed, listed per loop below); 'time proportional to the input' is not decided",
				"go-astits, golang.org/x/net/html, encoding/xml, bufio are trusted not to panic on any input (the property excludes streams on which the demultiplexer itself crashes)",
			},
			NotDecided: []string{"'returns within time proportional to the input' (a complexity bound) is not decided; only termination of counted loops is", "Unicode text: strings are an uninterpreted sort with byte-level length/index laws, so every text value is covered, but no rune-level law is used"},
		},
		"C18": {ID: "C18",
			Sweep: &SweepCfg{
				Parts: []string{"top"},
				Funcs: func(p *Program) []string { top, _ := sweepHalves(p); return top },
				Select: func(o *Obligation) bool {
					switch o.Kind {
					case "assigns", "map-order", "clock", "global-write":
						return false // decided under C19 / C20
					}
					// the fault-reporting postconditions, their invariants, and (C08's share for the
					// entry points) every panic site of these functions
					return true
				},
				Unclaimed: sweepUnclaimed,
			},
			Assumptions: []string{
				"fault model (contracts/extern.gvc, trusted): a reader carries a ghost flag `failed` set exactly when one of its Read calls returns an error other than io.EOF; a writer carries `wfailed` set exactly when one of its Write calls returns an error; `overlong` is set on a reader when a bufio.Scanner polling it gives up on a token longer than its buffer; the cell nil.fsfault is set when os.Open / os.Create returns an error",
				"library consumers (trusted, read off their sources): bufio.Scanner.Scan returning false after the reader failed or a token did not fit keeps that error for Err(); encoding/xml Decoder.Decode returns a read failure that happens while it reads its element; xml Encoder.Encode flushes and returns a failed Write; astits Demuxer.NextData returns an error other than ErrNoMorePackets when the reader fails",
				"the postcondition `failed ==> err != nil` at every return of every reader (resp. `wfailed ==> err != nil` for writers, `fsfault ==> err != nil` for Open/OpenFile/Write) is the property's first three clauses; preconditions: the reader/writer has not failed before the call",
			},
			NotDecided: []string{"'without a fault, a writer's successful return means the complete document was handed to the destination' needs a specification of the complete document: not decided (the writers' only exits after a failed Write are error returns, which is what the postcondition proves)",
				"Subtitles.Write: that a failing WriteToX(f) on the created file is reported follows from WriteToX's postcondition and Write returning that error; the flag of the local file cannot be named in Write's contract, so only the os.Create clause is stated for it"},
		},
		"C19": {ID: "C19",
			Sweep: &SweepCfg{
				Funcs: func(p *Program) []string {
					var ws []string
					for _, e := range entryPoints(p) {
						if strings.Contains(e, "Write") {
							ws = append(ws, e)
						}
					}
					return callTree(p, ws)
				},
				SelectP: func(p *Program, o *Obligation) bool {
					switch o.Kind {
					case "assigns":
						// purity of the cue list: heaps that can hold cue-list data (reachable by type from Subtitles)
						return strings.HasPrefix(o.Func, "Subtitles.WriteTo") && purityObligationOfCueList(p, o)
					case "map-order", "clock":
						return true
					case "inv-entry", "inv-step":
						return strings.HasPrefix(o.Func, "Subtitles.WriteTo")
					}
					return false
				},
				Unclaimed: sweepUnclaimed,
			},
			Assumptions: []string{
				"purity (no writer modifies the cue list it is given): each WriteToX carries `assigns` with ghost state only, so at every return every heap array must agree with its value at entry on all locations that existed at entry (obligation kind assigns, one per struct type); callees are used through their contracts' frames or through frames inferred from their bodies (proved, not assumed)",
				"order independence: every `range` over a map in the writers' call trees must be of the form 'collect keys (or a field of the values) into a slice, sort it in the next statement' or 'store under the range key into another map' (obligation kind map-order, decided structurally on the AST: the sorted sequence of a multiset is unique; sort.Strings is trusted to sort)",
				"clock: no function in the writers' call trees calls time.Now directly (obligation kind clock); the STL writer reads the package variable Now, whose value is an input of the call",
				"determinism of everything else follows from the writers being sequential code over their arguments: no goroutines, no channel, no select, no use of math/rand, no address-dependent formatting (%p) in the call trees (checked syntactically by the generator: such constructs are outside the verified subset and make the function undecided)",
			},
			NotDecided: []string{"'in another process': hash seeds only affect map iteration order, which is covered; environment-dependent library behaviour (locale, time zone database) is not modelled",
				"encoding/xml marshalling order is the struct field order (library behaviour, trusted)"},
		},
		"C20": {ID: "C20",
			Sweep: &SweepCfg{
				Funcs: func(p *Program) []string { return sweepFuncs(p) },
				SelectP: func(p *Program, o *Obligation) bool {
					switch o.Kind {
					case "global-write":
						return true
					case "assigns":
						return strings.HasPrefix(o.Func, "Subtitles.WriteTo") && purityObligationOfCueList(p, o)
					}
					return false
				},
				Unclaimed: sweepUnclaimed,
			},
			Special: c20Special,
			Assumptions: []string{
				"what is decided: (1) no function of the package assigns a package-level variable or stores / deletes / copies through an expression rooted at one (obligation kind global-write, generated at every such statement of every function: there are none on the unchanged tree, which the generator re-establishes on every run); (2) struct types shared through package-level pointers (the colour constants) are never assigned a field anywhere (shared-immutable, structural); (3) the five writers modify no memory that existed when they were called (obligation kind assigns, shared with C19); (4) the transformations write only what their `assigns` clauses allow, proved under C09-C15",
				"trusted: go-astikit BiMap is lock-protected; regexp.Regexp, strings.Replacer are documented safe for concurrent use; library calls classed pure do not write through their arguments (contracts/extern.gvc, modset.go externPurePrefixes)",
				"with (1)-(4), two calls that share no argument memory can only meet in memory reachable from package-level variables, which no function writes directly; writes through references *loaded* from package-level tables into locals are excluded for writers by (3) and for transformations by (4)",
			},
			NotDecided: []string{"readers: that a reader never writes through a reference loaded from a package-level table is not decided deductively (it would need an ownership/region discipline on callee frames; the teletext decoder copies the shared character table before patching it: updateCharset's d.c = *table copies the array value, which the memory model represents faithfully, but the obligation is not stated)",
				"'every call returns exactly what it returns when run alone' follows from the absence of shared mutable state only; scheduling, the race detector and GOMAXPROCS are outside a sequential verifier: not decided"},
		},
		"C14": {ID: "C14",
			Assumptions: []string{
				"precondition: cue pointers non-nil and distinct, start <= end per cue, starts and ends non-decreasing, d >= 1ms (the property's quantifier)",
			},
		},
	}
}

// c19Unclaimed: purity obligations of writers that the frame inference cannot discharge yet
// (accumulators grown inside nested loops, byte buffers built by several helpers). They are
// reported in the evidence as undecided, never as proved, and never as violations.
var sweepUnclaimed = map[string]string{
	"teletextCharacterDecoder.decode#index[d.c[i-0x20]]": "page rows hold parity-stripped bytes (< 128, astikit.ByteParity), so the index stays below 96; carrying that fact from parsePacketData through the packet buffer to the row parser needs a two-level quantified invariant over map-held slices that the solvers stop discharging once contract calls havoc their frames: not decided (the index was proved before the frame treatment was made sound; see DESIGN.md section 4)",
	"ReadFromTeletext#inv-step[loop1:inv3]":              "'the collected pages are non-nil' across the call of process: process writes the pointer-element heap only inside the buffer's own done-pages array, but its inferred frame is lost at its internal loop (no parameter-relative loop frame candidate yet): not decided; the obligations that depend on it (the receiver of page.parse) are proved under this invariant",
	"ReadFromTeletext#inv-entry[loop2:inv2]":             "same invariant at the entry of the page-parsing loop: not decided",
}
