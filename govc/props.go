package main

// Per-property configuration: what is claimed, what is not decided, what is assumed.

func propertyTable() map[string]PropertyCfg {
	return map[string]PropertyCfg{
		"C09": {ID: "C09",
			Assumptions: []string{
				"precondition: cue pointers non-nil and pairwise distinct, start <= end per cue, |t|,|d| <= 2^62 (the property's 'cue list')",
			},
			NotDecided: []string{"the shift-then-unshift law is proved as a lemma over the contract of Add (harness addThenSub) when present; see samples"},
		},
		"C12": {ID: "C12",
			Assumptions: []string{
				"precondition of Merge: receiver and argument are distinct lists, the argument's backing array is not the receiver's spare capacity, the argument's map keys equal the ID of their value",
				"sort.SliceStable: assumed contract (permutation, sorted, stable) for a comparator proved to be a strict weak order on the elements",
			},
		},
		"C14": {ID: "C14",
			Assumptions: []string{
				"precondition: cue pointers non-nil and distinct, start <= end per cue, starts and ends non-decreasing, d >= 1ms (the property's quantifier)",
			},
		},
	}
}
