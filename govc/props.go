package main

// Per-property configuration: what is claimed, what is not decided, what is assumed.

func propertyTable() map[string]PropertyCfg {
	return map[string]PropertyCfg{
		"C09": {ID: "C09",
			Assumptions: []string{
				"precondition: cue pointers non-nil and pairwise distinct, start <= end per cue, |t|,|d| <= 2^62 (the property's 'cue list')",
			},
			NotDecided: []string{"the shift-then-unshift law is proved as a lemma over the contract of Add (harness addThenSub) when present; see samples"},
		},
		"C10": {ID: "C10",
			Assumptions: []string{
				"precondition: cue pointers non-nil and distinct, 0 <= start <= end <= 2^61 per cue, list ordered by start, 0 < f <= 2^61 (the property's quantifier)",
				"three arithmetic lemmas over the symbolic period f (nonlinear integer arithmetic) are discharged separately from the entry facts and used through explicit instances",
				"relies on the contract of Order (C12) and on the trusted definition of the abstract cue text (Item.String)",
			},
		},
		"C11": {ID: "C11",
			Assumptions: []string{
				"precondition: cue pointers non-nil and pairwise distinct",
				"the text of a cue is the abstract function txt = result of Item.String(), assumed to be a deterministic function of the cue's Lines (header, line and run contents); Item.String's body is a trusted definition",
			},
			NotDecided: []string{"the inverse law Unfragment(Fragment(x)) == x needs a functional specification of Unfragment as the components of the same-text-touching relation and an induction over components: not decided"},
		},
		"C12": {ID: "C12",
			Assumptions: []string{
				"precondition of Merge: receiver and argument are distinct lists, the argument's backing array is not the receiver's spare capacity, the argument's map keys equal the ID of their value",
				"sort.SliceStable: assumed contract (permutation, sorted, stable) for a comparator proved to be a strict weak order on the elements",
			},
		},
		"C13": {ID: "C13",
			Assumptions: []string{
				"precondition wfRefs: map keys equal the ID of their (non-nil) value; every parent pointer of a defined style is the value defined under its ID (references resolve before the call)",
				"closure + support characterise reachability through inheritance only on a forest of styles (first-order logic has no transitive closure); stated, not machine-checked",
				"termination of the parent walk is not proved (no cardinality measure); the walk stops at already-marked styles, hence also on cyclic parent chains",
			},
			NotDecided: []string{"'the optimized list can still be written to every format and read back with the same cues' is codec fidelity (C01-C05): not decided", "idempotence is decided as a lemma harness over the contract when harness optimizeTwice is present"},
		},
		"C14": {ID: "C14",
			Assumptions: []string{
				"precondition: cue pointers non-nil and distinct, start <= end per cue, starts and ends non-decreasing, d >= 1ms (the property's quantifier)",
			},
		},
	}
}
