package main

// Library functions with built-in (assumed) semantics that need more than a
// first-order contract: sort.SliceStable with its comparator closure, etc.

import (
	"fmt"
	"go/ast"
	"go/constant"
	"go/types"
)

func (ex *Exec) specialExtern(st *State, call *ast.CallExpr, key string, callee *types.Func, recv *Val, args []Val) ([]Val, bool) {
	switch key {
	case "sort.SliceStable", "sort.Slice":
		ex.assumedExt[key+" (permutation, sorted w.r.t. the comparator"+map[bool]string{true: ", stable", false: ""}[key == "sort.SliceStable"]+")"] = true
		ex.sortSlice(st, call, args, key == "sort.SliceStable")
		return nil, true
	case "sort.Strings", "sort.Ints":
		// in-place sort: the new contents are a permutation of the old ones (sortedness is not needed
		// by any obligation and is therefore not stated)
		ex.assumedExt[key+" (in place; every new element is an old element of the same slice)"] = true
		ex.callSeq++
		sl := args[0]
		p := sliceParts(sl)
		et := elemType(sl.T)
		c0 := flatten(et)[0]
		name, h := st.elemHeap(et, c0)
		inner := Select(h, p.arr)
		nw := Fresh("sorted", inner.sort)
		piN := fmt.Sprintf("gf$sortperm.c%d", ex.callSeq)
		DeclareFun(piN, []Sort{SInt}, SInt)
		q := BVar("q", SInt)
		piq := App(piN, SInt, q)
		inW := And(Le(p.off, q), Lt(q, Add(p.off, p.len)))
		st.assume(Forall([]*Term{q}, Implies(inW, And(Le(p.off, piq), Lt(piq, Add(p.off, p.len)), Eq(Select(nw, q), Select(inner, piq)))), []*Term{Select(nw, q)}))
		m := BVar("m", SInt)
		st.assume(Forall([]*Term{m}, Implies(Or(Lt(m, p.off), Ge(m, Add(p.off, p.len))), Eq(Select(nw, m), Select(inner, m))), []*Term{Select(nw, m)}))
		st.heapSet(name, Store(h, p.arr, nw))
		ex.mutCount++
		return nil, true
	case "astikit.BiMap.Get", "astikit.BiMap.GetInverse":
		sel, ok := unparen(call.Fun).(*ast.SelectorExpr)
		if !ok {
			return nil, false
		}
		sig := callee.Type().(*types.Signature)
		vs := ex.havocResults(st, sig, "bimap")
		if f, okf := ex.bimapReceiverFacts(sel.X); okf {
			t := f.valT
			if key == "astikit.BiMap.GetInverse" {
				t = f.keyT
			}
			if t != nil && len(vs) == 2 {
				// table fact from the initialiser: every stored value on this side has this dynamic type
				ex.assumedExt[key+" on a package-level table (table fact from its initialiser: uniform dynamic type "+t.String()+", constant integer entries)"] = true
				st.assume(Implies(vs[1].C[0], Eq(vs[0].C[0], typeTag(t))))
				ints := f.valInts
				if key == "astikit.BiMap.GetInverse" {
					ints = f.keyInts
				}
				if len(ints) > 0 && len(ints) <= 64 {
					var ds []*Term
					for _, n := range ints {
						ds = append(ds, Eq(vs[0].C[1], IntLit(n)))
					}
					st.assume(Implies(vs[1].C[0], Or(ds...)))
				}
			}
		} else if recv != nil && len(vs) == 2 && len(recv.C) == 1 {
			// a BiMap held in a variable or field: the dynamic type of what it returns is a ghost
			// attribute of the BiMap object (bimapValTag / bimapKeyTag), fixed by table facts for the
			// BiMaps stored in package-level tables
			fn := "bimapValTag"
			if key == "astikit.BiMap.GetInverse" {
				fn = "bimapKeyTag"
			}
			DeclareFun(fn, []Sort{SInt}, SInt)
			ex.assumedExt[key+" (the dynamic type of the result is an attribute of the BiMap object: table facts from the initialisers of package-level tables)"] = true
			st.assume(Implies(vs[1].C[0], Eq(vs[0].C[0], App(fn, SInt, recv.C[0]))))
		} else {
			ex.assumedExt[key+" (total; result type unconstrained)"] = true
		}
		return vs, true
	case "regexp.Regexp.FindStringSubmatch", "regexp.Regexp.FindStringSubmatchIndex", "regexp.Regexp.FindStringIndex",
		"regexp.Regexp.FindAllStringSubmatchIndex", "regexp.Regexp.FindAllStringIndex", "regexp.Regexp.FindAllStringSubmatch":
		sel, ok := unparen(call.Fun).(*ast.SelectorExpr)
		if !ok {
			return nil, false
		}
		f, okf := ex.regexFactsOf(sel.X)
		if !okf {
			return nil, false
		}
		return ex.regexpFind(st, call, key, callee, f, args), true
	case "bytes.IndexAny":
		// IndexAny(s, chars) with a constant chars: least index of a byte of s that is in chars, or -1
		tv, okc := ex.P.Info.Types[call.Args[1]]
		if !okc || tv.Value == nil {
			return nil, false
		}
		chars := constant.StringVal(tv.Value)
		for _, c := range []byte(chars) {
			if c >= 0x80 {
				return nil, false
			}
		}
		ex.assumedExt["bytes.IndexAny(s, const ASCII chars) (least index of a member byte, or -1)"] = true
		s := args[0]
		p := sliceParts(s)
		_, h := st.elemHeap(tByte, flatten(tByte)[0])
		inner := Select(h, p.arr)
		isMember := func(b *Term) *Term {
			var ds []*Term
			for _, c := range []byte(chars) {
				ds = append(ds, Eq(b, IntLit(int64(c))))
			}
			return Or(ds...)
		}
		r := Fresh("indexany", SInt)
		q := BVar("q", SInt)
		at := func(i *Term) *Term { return Select(inner, i) }
		none := Forall([]*Term{q}, Implies(And(Le(p.off, q), Lt(q, Add(p.off, p.len))), Not(isMember(at(q)))), []*Term{at(q)})
		q2 := BVar("q", SInt)
		first := And(Le(IntLit(0), r), Lt(r, p.len), isMember(at(Add(p.off, r))),
			Forall([]*Term{q2}, Implies(And(Le(p.off, q2), Lt(q2, Add(p.off, r))), Not(isMember(at(q2)))), []*Term{at(q2)}))
		st.assume(Or(And(Eq(r, IntLit(-1)), none), first))
		return []Val{intVal(r)}, true
	case "astikit.StrPad":
		// left padding without cut is the only shape given a law; anything else is uninterpreted
		res := freshVal("strpad", tString)
		if len(call.Args) == 4 && ex.isPkgFunc(call.Args[3], "github.com/asticode/go-astikit", "PadLeft") {
			ex.assumedExt["astikit.StrPad(s, ch, n, PadLeft) (law: result = strpadleft(s,ch,n); length max(len(s),n); s itself when len(s) >= n)"] = true
			DeclareFun("strpadleft", []Sort{SStr, SInt, SInt}, SStr)
			r := App("strpadleft", SStr, args[0].term(), args[1].term(), args[2].term())
			ln := StrLen(args[0].term())
			st.assume(Eq(StrLen(r), Ite(Ge(ln, args[2].term()), ln, args[2].term())))
			st.assume(Implies(Ge(ln, args[2].term()), Eq(r, args[0].term())))
			return []Val{scalar(tString, r)}, true
		}
		ex.assumedExt["astikit.StrPad (other options: result unconstrained)"] = true
		return []Val{res}, true
	case "fmt.Errorf", "errors.New":
		ex.assumedExt[key+" (returns a non-nil error)"] = true
		// a freshly allocated error value: non-nil and distinct from every sentinel (whose payloads are negative)
		v := freshVal("err", callee.Type().(*types.Signature).Results().At(0).Type())
		st.assume(Neq(v.C[0], IntLit(0)))
		st.assume(Eq(v.C[1], st.alloc()))
		return []Val{v}, true
	}
	return nil, false
}

// containsTerm reports whether t mentions any of the given terms.
func containsTerm(t *Term, ids map[int]bool) bool {
	seen := map[int]bool{}
	var rec func(t *Term) bool
	rec = func(t *Term) bool {
		if ids[t.id] {
			return true
		}
		if seen[t.id] {
			return false
		}
		seen[t.id] = true
		for _, a := range t.args {
			if rec(a) {
				return true
			}
		}
		return false
	}
	return rec(t)
}

func (ex *Exec) sortSlice(st *State, call *ast.CallExpr, args []Val, stable bool) {
	ex.callSeq++
	seq := ex.callSeq
	x := args[0]
	// the interface argument carries the slice in Aux
	sl, ok := x.Aux.(Val)
	if !ok {
		ex.unsupported(call, "sort: slice argument not statically known")
	}
	fi, ok := args[1].Aux.(*FuncInfo)
	if !ok {
		ex.unsupported(call, "sort: comparator is not a function literal")
	}
	p := sliceParts(sl)
	et := elemType(sl.T)
	cs := flatten(et)
	if len(cs) != 1 {
		ex.unsupported(call, "sort: composite element type")
	}
	name, h := st.elemHeap(et, cs[0])
	inner := Select(h, p.arr)
	// evaluate the comparator on two symbolic positions
	i0 := Fresh("sort.i", SInt)
	j0 := Fresh("sort.j", SInt)
	scratch := st.clone()
	scratch.assume(And(Le(IntLit(0), i0), Lt(i0, p.len), Le(IntLit(0), j0), Lt(j0, p.len)))
	pi0 := Select(inner, Add(p.off, i0))
	pj0 := Select(inner, Add(p.off, j0))
	res := ex.inline(scratch, call, fi, nil, []Val{intVal(i0), intVal(j0)})
	R := res[0].term()
	L := func(a, b *Term) *Term { return Subst(R, map[int]*Term{pi0.id: a, pj0.id: b}) }
	a, b, c := Fresh("sort.a", SInt), Fresh("sort.b", SInt), Fresh("sort.c", SInt)
	if containsTerm(L(a, b), map[int]bool{i0.id: true, j0.id: true, h.id: true}) {
		ex.unsupported(call, "sort: comparator is not a function of the two elements alone")
	}
	// the comparator must be a strict weak order on the elements
	elem := func(t *Term) *Term {
		k := BVar("k", SInt)
		return Exists([]*Term{k}, And(Le(IntLit(0), k), Lt(k, p.len), Eq(Select(inner, Add(p.off, k)), t)))
	}
	sw := st.clone()
	sw.assume(And(elem(a), elem(b), elem(c)))
	ex.obligNoAssume(sw, "pre@call", call, "sort:irreflexive", Not(L(a, a)))
	ex.obligNoAssume(sw, "pre@call", call, "sort:transitive", Implies(And(L(a, b), L(b, c)), L(a, c)))
	ex.obligNoAssume(sw, "pre@call", call, "sort:incomparability-transitive",
		Implies(And(Not(L(a, b)), Not(L(b, a)), Not(L(b, c)), Not(L(c, b))), And(Not(L(a, c)), Not(L(c, a)))))
	// effect
	piN := fmt.Sprintf("gf$sort.c%d.pi", seq)
	pinvN := fmt.Sprintf("gf$sort.c%d.pinv", seq)
	DeclareFun(piN, []Sort{SInt}, SInt)
	DeclareFun(pinvN, []Sort{SInt}, SInt)
	pi := func(t *Term) *Term { return App(piN, SInt, t) }
	pinv := func(t *Term) *Term { return App(pinvN, SInt, t) }
	nw := Fresh("sorted", inner.sort)
	n := p.len
	k := BVar("k", SInt)
	inR := func(t *Term) *Term { return And(Le(IntLit(0), t), Lt(t, n)) }
	newAt := func(t *Term) *Term { return Select(nw, Add(p.off, t)) }
	oldAt := func(t *Term) *Term { return Select(inner, Add(p.off, t)) }
	// permutation (relative index k, triggered on pi / pinv)
	st.assume(Forall([]*Term{k}, Implies(inR(k), And(inR(pi(k)), Eq(newAt(k), oldAt(pi(k))), Eq(pinv(pi(k)), k))), []*Term{pi(k)}))
	st.assume(Forall([]*Term{k}, Implies(inR(k), And(inR(pinv(k)), Eq(pi(pinv(k)), k))), []*Term{pinv(k)}))
	// the same facts over absolute positions, triggered on array reads
	pp, qq := BVar("p", SInt), BVar("q", SInt)
	inW := func(t *Term) *Term { return And(Le(p.off, t), Lt(t, Add(p.off, n))) }
	rel := func(t *Term) *Term { return Sub(t, p.off) }
	st.assume(Forall([]*Term{pp}, Implies(inW(pp), And(inR(pi(rel(pp))), Eq(Select(nw, pp), oldAt(pi(rel(pp)))))), []*Term{Select(nw, pp)}))
	st.assume(Forall([]*Term{pp}, Implies(inW(pp), And(inR(pinv(rel(pp))), Eq(Select(inner, pp), newAt(pinv(rel(pp)))))), []*Term{Select(inner, pp)}))
	// frame inside the array
	m := BVar("m", SInt)
	st.assume(Forall([]*Term{m}, Implies(Or(Lt(m, p.off), Ge(m, Add(p.off, n))), Eq(Select(nw, m), Select(inner, m))), []*Term{Select(nw, m)}))
	// sorted
	st.assume(Forall([]*Term{pp, qq}, Implies(And(inW(pp), inW(qq), Lt(pp, qq)), Not(L(Select(nw, qq), Select(nw, pp)))), []*Term{Select(nw, pp), Select(nw, qq)}))
	i, j := BVar("i", SInt), BVar("j", SInt)
	if stable {
		st.assume(Forall([]*Term{i, j}, Implies(And(inR(i), inR(j), Lt(i, j), Not(L(newAt(i), newAt(j)))), Lt(pi(i), pi(j))), []*Term{pi(i), pi(j)}))
	}
	st.heapSet(name, Store(h, p.arr, nw))
	ex.mutCount++
	gi := &GhostInst{Name: piN, Params: []Sort{SInt}, Ret: SInt, RetT: tInt}
	gv := &GhostInst{Name: pinvN, Params: []Sort{SInt}, Ret: SInt, RetT: tInt}
	st.setCallGhost("sort$pi", gi)
	st.setCallGhost("sort$pinv", gv)
}

// regexpFind: results of the Find* family for a package-level regexp whose group structure is a
// table fact computed from its pattern (number of groups, groups that take part in every match).
func (ex *Exec) regexpFind(st *State, call *ast.CallExpr, key string, callee *types.Func, f regexFact, args []Val) []Val {
	sig := callee.Type().(*types.Signature)
	rt := sig.Results().At(0).Type()
	ex.assumedExt[key+" on a package-level regexp (result shape from the pattern: group count, always-participating groups, ordered non-overlapping matches)"] = true
	s := args[0].term()
	slen := StrLen(s)
	ngroups := int64(f.n + 1)
	res := freshVal("re", rt)
	st.assumeAll(typeFacts(res))
	st.assumeAll(ex.allocFacts(st, res))
	p := sliceParts(res)
	st.assume(Implies(Eq(p.arr, IntLit(0)), Eq(p.len, IntLit(0))))
	intT := types.Typ[types.Int]
	_, hInt := st.elemHeap(intT, flatten(intT)[0])
	// constraints on one match given as an []int index vector (arr, off, len)
	matchFacts := func(arr, off, ln *Term) *Term {
		var cs []*Term
		cs = append(cs, Eq(ln, IntLit(2*ngroups)), Neq(arr, IntLit(0)))
		at := func(k int64) *Term { return Select(Select(hInt, arr), Add(off, IntLit(k))) }
		for g := int64(0); g < ngroups; g++ {
			lo, hi := at(2*g), at(2*g+1)
			valid := And(Le(IntLit(0), lo), Le(lo, hi), Le(hi, slen), Le(at(0), lo), Le(hi, at(1)))
			if g == 0 && f.minLen > 0 {
				valid = And(valid, Le(Add(lo, IntLit(int64(f.minLen))), hi))
			}
			if f.always[g] {
				cs = append(cs, valid)
			} else {
				cs = append(cs, Or(And(Eq(lo, IntLit(-1)), Eq(hi, IntLit(-1))), valid))
			}
		}
		return And(cs...)
	}
	switch {
	case key == "regexp.Regexp.FindStringSubmatch":
		// nil or 1+n strings
		st.assume(Or(And(Eq(p.arr, IntLit(0)), Eq(p.len, IntLit(0))), And(Neq(p.arr, IntLit(0)), Eq(p.len, IntLit(ngroups)))))
	case key == "regexp.Regexp.FindStringSubmatchIndex" || key == "regexp.Regexp.FindStringIndex":
		if key == "regexp.Regexp.FindStringIndex" {
			ngroups = 1
		}
		st.assume(Or(And(Eq(p.arr, IntLit(0)), Eq(p.len, IntLit(0))), matchFacts(p.arr, p.off, p.len)))
	case key == "regexp.Regexp.FindAllStringSubmatch":
		st.assume(Ge(p.len, IntLit(0)))
		strSl := elemType(rt)
		cs := flatten(strSl)
		_, hLen := st.elemHeap(strSl, cs[2])
		k := BVar("k", SInt)
		sel := Select(Select(hLen, p.arr), k)
		st.assume(Forall([]*Term{k}, Implies(And(Le(p.off, k), Lt(k, Add(p.off, p.len))), Eq(sel, IntLit(ngroups))), []*Term{sel}))
	default: // FindAllStringSubmatchIndex, FindAllStringIndex: [][]int
		if key == "regexp.Regexp.FindAllStringIndex" {
			ngroups = 1
		}
		inner := elemType(rt)
		cs := flatten(inner)
		_, hArr := st.elemHeap(inner, cs[0])
		_, hOff := st.elemHeap(inner, cs[1])
		_, hLen := st.elemHeap(inner, cs[2])
		k := BVar("k", SInt)
		a := Select(Select(hArr, p.arr), k)
		o := Select(Select(hOff, p.arr), k)
		l := Select(Select(hLen, p.arr), k)
		st.assume(Forall([]*Term{k}, Implies(And(Le(p.off, k), Lt(k, Add(p.off, p.len))), matchFacts(a, o, l)), []*Term{a}, []*Term{l}))
		// successive matches do not overlap and are in increasing order
		k2 := BVar("k", SInt)
		a1 := Select(Select(hArr, p.arr), k2)
		o1 := Select(Select(hOff, p.arr), k2)
		a2 := Select(Select(hArr, p.arr), Add(k2, IntLit(1)))
		o2 := Select(Select(hOff, p.arr), Add(k2, IntLit(1)))
		end1 := Select(Select(hInt, a1), Add(o1, IntLit(1)))
		start2 := Select(Select(hInt, a2), o2)
		st.assume(Forall([]*Term{k2}, Implies(And(Le(p.off, k2), Lt(Add(k2, IntLit(1)), Add(p.off, p.len))), Le(end1, start2)), []*Term{a1}))
	}
	return []Val{res}
}
