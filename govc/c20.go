package main

// C20 extras: the inventory of package-level variables, and the check that struct types whose
// instances are shared through package-level pointers (the colour constants) are never written
// after construction anywhere in the package.

import (
	"fmt"
	"go/ast"
	"go/types"
	"sort"
	"strings"
)

func c20Special(p *Program, run *CheckRun) {
	scope := p.Pkg.Types.Scope()
	var inv []map[string]string
	shared := map[string]bool{} // struct type names with package-level pointer instances
	for _, name := range scope.Names() {
		v, ok := scope.Lookup(name).(*types.Var)
		if !ok {
			continue
		}
		kind := "immutable value"
		t := v.Type()
		switch u := t.Underlying().(type) {
		case *types.Pointer:
			if n, ok := u.Elem().(*types.Named); ok && n.Obj().Pkg() == p.Pkg.Types {
				shared[n.Obj().Name()] = true
				kind = "pointer to a package struct shared by all calls (must never be written: see shared-immutable)"
			} else {
				kind = "pointer to a library object (regexp, BiMap, Replacer: documented safe for concurrent use; trusted)"
			}
		case *types.Map, *types.Slice, *types.Array:
			kind = "table read by all calls (no function stores through it: obligation kind global-write)"
		case *types.Signature:
			kind = "function variable (the injectable clock): read only; assigning it concurrently with calls is the caller's documented responsibility"
		case *types.Interface:
			kind = "error sentinel (immutable)"
		}
		inv = append(inv, map[string]string{"var": name, "type": types.TypeString(t, func(*types.Package) string { return "" }), "role": kind})
	}
	run.Extra["package_level_variables"] = inv
	// shared-immutable: no assignment / inc-dec whose target is a field of a shared struct type
	var tnames []string
	for n := range shared {
		tnames = append(tnames, n)
	}
	sort.Strings(tnames)
	for _, tn := range tnames {
		var sites []string
		for _, f := range p.Pkg.Syntax {
			fname := p.Fset.Position(f.Pos()).Filename
			if strings.HasSuffix(fname, "_test.go") {
				continue
			}
			check := func(l ast.Expr) {
				sel, ok := unparen(l).(*ast.SelectorExpr)
				if !ok {
					return
				}
				tv, ok := p.Info.Types[sel.X]
				if !ok {
					return
				}
				t := tv.Type
				if pt, ok := t.Underlying().(*types.Pointer); ok {
					t = pt.Elem()
				}
				if n, ok := t.(*types.Named); ok && n.Obj().Name() == tn && n.Obj().Pkg() == p.Pkg.Types {
					pos := p.Fset.Position(l.Pos())
					sites = append(sites, fmt.Sprintf("%s:%d", strings.TrimPrefix(pos.Filename, repoDir+"/"), pos.Line))
				}
			}
			ast.Inspect(f, func(n ast.Node) bool {
				switch x := n.(type) {
				case *ast.AssignStmt:
					for _, l := range x.Lhs {
						check(l)
					}
				case *ast.IncDecStmt:
					check(x.X)
				}
				return true
			})
		}
		status := "proved"
		if len(sites) > 0 {
			status = "refuted"
		}
		name := "shared-immutable[" + tn + "]"
		run.ExtraObls = append(run.ExtraObls, map[string]interface{}{"obligation": name, "kind": "shared-immutable", "status": status,
			"detail": "no statement of the package assigns a field of " + tn + " (its instances are shared through package-level pointers)", "sites": sites})
		if status != "proved" {
			path := writeReplay(run, name, map[string]interface{}{"obligation": name, "sites": sites,
				"note": "a field of a struct type whose instances are shared by all calls through package-level pointers is assigned: concurrent calls would race on it"})
			run.Lines = append(run.Lines, fmt.Sprintf("VIOLATION property=%s replay=%s no-failing-input-found", run.ID, path))
			run.Viol++
		}
	}
}
