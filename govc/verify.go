package main

// Per-function verification driver: initial state, requires, body, ensures,
// frame, ghost functions, lemmas, vacuity canaries.

import (
	"fmt"
	"go/ast"
	"go/constant"
	"go/token"
	"go/types"
	"sort"
	"strings"
)

// prepareFunc computes loop/return ordinals and boxed (address-taken) variables.
func (ex *Exec) prepareFunc(fi *FuncInfo) {
	if _, done := ex.prepared[fi]; done {
		return
	}
	if ex.prepared == nil {
		ex.prepared = map[*FuncInfo]bool{}
	}
	ex.prepared[fi] = true
	nl, nr := 0, 0
	var walk func(n ast.Node) bool
	walk = func(n ast.Node) bool {
		switch x := n.(type) {
		case *ast.FuncLit:
			if x.Body != fi.Body {
				// closures are separate functions, but address-taking inside them still boxes
				ast.Inspect(x.Body, func(m ast.Node) bool {
					ex.boxScan(m)
					return true
				})
				return false
			}
		case *ast.ForStmt:
			nl++
			ex.loopOrd[x] = nl
		case *ast.RangeStmt:
			nl++
			ex.loopOrd[x] = nl
		case *ast.ReturnStmt:
			nr++
			ex.retOrd[x] = nr
		}
		ex.boxScan(n)
		return true
	}
	ast.Inspect(fi.Body, walk)
}

func (ex *Exec) boxScan(n ast.Node) {
	switch x := n.(type) {
	case *ast.UnaryExpr:
		if x.Op == token.AND {
			if id, ok := unparen(x.X).(*ast.Ident); ok {
				if o, ok := ex.P.Info.Uses[id].(*types.Var); ok && !(o.Pkg() != nil && o.Parent() == o.Pkg().Scope()) {
					ex.boxed[o] = true
				}
			}
		}
	case *ast.CallExpr:
		// pointer-receiver method on an addressable local value
		if sel, ok := unparen(x.Fun).(*ast.SelectorExpr); ok {
			if s, ok := ex.P.Info.Selections[sel]; ok && s.Kind() == types.MethodVal {
				if fn, ok := s.Obj().(*types.Func); ok {
					rt := fn.Type().(*types.Signature).Recv().Type()
					_, wantPtr := rt.Underlying().(*types.Pointer)
					if id, ok := unparen(sel.X).(*ast.Ident); ok && wantPtr {
						if o, ok := ex.P.Info.Uses[id].(*types.Var); ok {
							if _, isPtr := o.Type().Underlying().(*types.Pointer); !isPtr && !isIface(o.Type()) {
								ex.boxed[o] = true
							}
						}
					}
				}
			}
		}
	}
}

type FuncResult struct {
	Key       string
	Undecided string
	Obls      []*Obligation
	Notes     []string
	Externs   []string
	Trusted   bool
}

func (ex *Exec) paramList(fi *FuncInfo) []*types.Var {
	var ps []*types.Var
	if r := fi.Sig.Recv(); r != nil {
		ps = append(ps, r)
	}
	for i := 0; i < fi.Sig.Params().Len(); i++ {
		ps = append(ps, fi.Sig.Params().At(i))
	}
	return ps
}

func (ex *Exec) initState(fi *FuncInfo) *State {
	st := newState()
	ctr0 := Sym("ctr$0", SInt)
	st.ctr = ctr0
	st.assume(Ge(ctr0, IntLit(1)))
	for _, p := range ex.paramList(fi) {
		if p.Name() == "_" || p.Name() == "" {
			continue
		}
		v := freshVal("p."+p.Name(), p.Type())
		st.assumeAll(typeFacts(v))
		st.assumeAll(ex.allocFacts(st, v))
		ex.declVar(st, p, v)
		ex.paramEnv[p.Name()] = v
	}
	for i := 0; i < fi.Sig.Results().Len(); i++ {
		r := fi.Sig.Results().At(i)
		if r.Name() != "" && r.Name() != "_" {
			ex.declVar(st, r, zeroVal(r.Type()))
		}
	}
	// implicit contract: a pointer receiver is not nil (asserted at every in-package call site)
	if r := fi.Sig.Recv(); r != nil && r.Name() != "" && r.Name() != "_" {
		if _, isPtr := r.Type().Underlying().(*types.Pointer); isPtr {
			if v, ok := ex.paramEnv[r.Name()]; ok {
				st.assume(Neq(v.C[0], IntLit(0)))
			}
		}
	}
	return st
}

func (ex *Exec) fnCtx(st *State, env map[string]Val) *SpecCtx {
	e := map[string]Val{}
	for k, v := range ex.paramEnv {
		e[k] = v
	}
	for k, v := range env {
		e[k] = v
	}
	return &SpecCtx{ex: ex, st: st, old: ex.pre, env: e, ghosts: ex.ghosts}
}

// verifyFunc generates all obligations of ex.Fn.
func (ex *Exec) verifyFunc() (res *FuncResult) {
	fi := ex.Fn
	res = &FuncResult{Key: fi.Key}
	defer func() {
		if r := recover(); r != nil {
			if u, ok := r.(undecided); ok {
				res.Undecided = u.reason
				res.Obls = nil
				return
			}
			panic(r)
		}
	}()
	ex.curFn = fi
	ex.paramEnv = map[string]Val{}
	ex.prepareFunc(fi)
	con := fi.Contract
	if con != nil {
		ex.curProps = con.Props
		if m, ok := con.Opts["float-model"]; ok {
			ex.floatModel = m
		}
	}
	st := ex.initState(fi)
	ex.pre = st.clone()
	if con != nil {
		if con.Opts["trusted"] != "" {
			res.Trusted = true
			return res
		}
		ex.instantiateGhostFuns(st, con, ex.fnCtx(ex.pre, nil), ex.ghosts, sanitize(fi.Key), true)
		for i, r := range con.Requires {
			if ex.safetyOnly && isFnLabel(r.Label) {
				continue // the sweep checks panic-freedom without the functional preconditions
			}
			t := ex.evalSpecBoolAt(ex.fnCtx(st, nil), r.E, fmt.Sprintf("%s requires %d", fi.Key, i+1))
			st.assume(t)
		}
		ex.pre.facts = append([]*Term(nil), st.facts...)
		if !ex.safetyOnly {
			ex.proveLemmas(st, con)
		}
	}
	// vacuity canary: the assumptions at entry must not be contradictory
	ex.canary(st, "entry")
	out := ex.execBlock(st, fi.Body.List)
	rets := ex.retStates
	if fi.Sig.Results().Len() == 0 {
		for _, f := range out.falls {
			rets = append(rets, retOut{st: f, fn: fi})
		}
	}
	for i, r := range rets {
		ord := i + 1
		if r.site != nil {
			ord = ex.retOrd[r.site]
		}
		if ex.safetyOnly && con != nil && hasFnRequires(con) {
			ex.canary(r.st, fmt.Sprintf("ret%d", ord))
			continue // functional ensures are discharged under the property that owns the contract
		}
		ex.checkReturn(r, ord, con)
	}
	res.Obls = ex.Obls
	for n := range ex.notes {
		res.Notes = append(res.Notes, n)
	}
	sort.Strings(res.Notes)
	for _, a := range ex.autoInvs {
		res.Notes = append(res.Notes, "auto frame invariant proved inductive: "+a)
	}
	for e := range ex.assumedExt {
		res.Externs = append(res.Externs, e)
	}
	sort.Strings(res.Externs)
	return res
}

func (ex *Exec) canary(st *State, where string) {
	o := &Obligation{Name: fmt.Sprintf("%s#canary[%s]", ex.Fn.Key, where), Kind: "canary", Func: ex.Fn.Key, Facts: append([]*Term(nil), st.facts...), Goal: False, Canary: true, Props: ex.curProps}
	ex.Obls = append(ex.Obls, o)
}

func (ex *Exec) checkReturn(r retOut, ord int, con *Contract) {
	st := r.st
	var node ast.Node = ex.Fn.Body
	if r.site != nil {
		node = r.site
	}
	if con == nil {
		return
	}
	env := map[string]Val{}
	rn := ex.resultNames(con, ex.Fn.Sig)
	for i, v := range r.vals {
		if i < len(rn) {
			env[rn[i]] = v
		}
	}
	// witnesses for ghost-outs
	ghosts := map[string]*GhostInst{}
	for k, g := range ex.ghosts {
		ghosts[k] = g
	}
	for _, g := range con.GhostOuts {
		body := con.Witness[ord][g.Name]
		if body == nil {
			body = con.Witness[0][g.Name]
		}
		if body == nil {
			panic(undecided{fmt.Sprintf("%s: no witness for ghost result %s at return %d", ex.Fn.Key, g.Name, ord)})
		}
		g := g
		b := body
		gi := &GhostInst{Name: g.Name, RetT: tInt, Ret: SInt}
		gi.Lambda = func(args []*Term) *Term {
			c := ex.fnCtx(st, env)
			c.ghosts = ghosts
			for i, p := range g.Params {
				c.env[p.Name] = scalar(c.resolveType(p.Type), args[i])
			}
			return c.evalTerm(b)
		}
		ghosts[g.Name] = gi
	}
	for i, e := range con.Ensures {
		c := ex.fnCtx(st, env)
		c.ghosts = ghosts
		t := ex.evalSpecBoolAt(c, e.E, fmt.Sprintf("%s ensures %d", ex.Fn.Key, i+1))
		ex.obligNoAssume(st, "post@return", node, fmt.Sprintf("ret%d:%s", ord, clauseLabel(e, i, "ens")), t)
	}
	if con.HasAssign {
		ex.checkFrame(st, node, ord, con)
	}
	ex.canary(st, fmt.Sprintf("ret%d", ord))
}

func (ex *Exec) obligNoAssume(st *State, kind string, n ast.Node, desc string, cond *Term) {
	nf := len(st.facts)
	ex.oblig(st, kind, n, desc, cond)
	st.facts = st.facts[:nf]
}

// checkFrame: every heap array changed by the function differs from its
// pre-state only at the allowed locations (or at freshly allocated ids).
func (ex *Exec) checkFrame(st *State, n ast.Node, ord int, con *Contract) {
	targets := ex.assignsTargets(ex.fnCtx(ex.pre, nil), con, ex.Fn.Sig)
	allowed := map[string][]frameTarget{}
	for _, t := range targets {
		allowed[t.heap] = append(allowed[t.heap], t)
	}
	var names []string
	for h := range st.heap {
		names = append(names, h)
	}
	sort.Strings(names)
	ctr0 := ex.pre.ctr
	// one obligation per struct type (its field heaps together), so that a function touching the
	// ninety fields of StyleAttributes does not produce ninety obligations per return
	groups := map[string][]*Term{}
	firstDesc := map[string]string{}
	var gk []string
	for _, h := range names {
		cur := st.heap[h]
		old := ex.pre.heapGet(h, heapSorts[h])
		if cur == old {
			continue
		}
		whole := false
		var ne []*Term
		r := BVar("r", SInt)
		for _, t := range allowed[h] {
			if t.whole {
				whole = true
			} else {
				ne = append(ne, Neq(r, t.at))
			}
		}
		if whole {
			continue
		}
		cond := And(append(ne, Lt(r, ctr0))...)
		goal := Forall([]*Term{r}, Implies(cond, Eq(Select(cur, r), Select(old, r))))
		g := heapGroup(describeHeapName(h))
		if len(allowed[h]) > 0 {
			g = describeHeapName(h) // heaps with explicit targets are reported one by one
		}
		if _, ok := groups[g]; !ok {
			gk = append(gk, g)
			firstDesc[g] = describeHeapName(h)
		}
		groups[g] = append(groups[g], goal)
	}
	for _, g := range gk {
		name := firstDesc[g] // a single heap is reported under its own name
		if len(groups[g]) > 1 {
			name = g + ".*"
		}
		ex.obligNoAssume(st, "assigns", n, fmt.Sprintf("ret%d:%s", ord, name), And(groups[g]...))
	}
}

// ---- ghost functions and lemmas ----

func (ex *Exec) declareGhost(c *SpecCtx, g *GhostFun, smtName string) *GhostInst {
	var ps []Sort
	for _, p := range g.Params {
		t := c.resolveType(p.Type)
		ps = append(ps, flatten(t)[0].Sort)
	}
	rt := c.resolveType(g.Ret)
	rs := flatten(rt)[0].Sort
	name := "gf$" + sanitize(smtName)
	DeclareFun(name, ps, rs)
	return &GhostInst{Name: name, Params: ps, Ret: rs, RetT: rt}
}

func (ex *Exec) instantiateGhostFuns(st *State, con *Contract, c *SpecCtx, ghosts map[string]*GhostInst, tag string, own bool) {
	for _, g := range con.GhostFuns {
		gi := ex.declareGhost(c, g, tag+"."+g.Name)
		ghosts[g.Name] = gi
	}
	for _, g := range con.GhostFuns {
		gi := ghosts[g.Name]
		n := *c
		n.ghosts = ghosts
		n.env = map[string]Val{}
		for k, v := range c.env {
			n.env[k] = v
		}
		var vars []*Term
		for i, p := range g.Params {
			bv := BVar(p.Name, gi.Params[i])
			vars = append(vars, bv)
			n.env[p.Name] = scalar(c.resolveType(p.Type), bv)
		}
		var body *Term
		func() {
			defer func() {
				if r := recover(); r != nil {
					if sf, ok := r.(specFail); ok {
						panic(undecided{fmt.Sprintf("contract error in ghostfun %s: %s", g.Name, string(sf))})
					}
					panic(r)
				}
			}()
			body = n.evalTerm(g.Body)
		}()
		if g.Opaque {
			app := App(gi.Name, gi.Ret, vars...)
			addAxiomFor(gi.Name, Forall(vars, Eq(app, body), []*Term{app}))
			// second orientation: triggered by reads of the underlying array, so that raw
			// reads (in callers, harnesses) give rise to the opaque application terms
			if v2, b2 := absolutize(vars, Eq(app, body)); b2 != Eq(app, body) {
				addAxiomFor(gi.Name, Forall(v2, b2))
			}
		} else {
			DefineRecFun(gi.Name, vars, gi.Ret, body)
		}
	}
	if !own {
		// lemmas proved in the callee are available at the call site
		for _, l := range con.Lemmas {
			if l.Manual {
				continue
			}
			t := ex.lemmaTerm(c, ghosts, l, nil)
			st.assume(t)
		}
	}
}

func (ex *Exec) lemmaTerm(c *SpecCtx, ghosts map[string]*GhostInst, l *Lemma, inst map[string]*Term) *Term {
	n := *c
	n.ghosts = ghosts
	n.env = map[string]Val{}
	for k, v := range c.env {
		n.env[k] = v
	}
	var vars []*Term
	for _, p := range l.Params {
		t := c.resolveType(p.Type)
		if x, ok := inst[p.Name]; ok {
			n.env[p.Name] = scalar(t, x)
			continue
		}
		bv := BVar(p.Name, flatten(t)[0].Sort)
		vars = append(vars, bv)
		n.env[p.Name] = scalar(t, bv)
	}
	body := ex.evalSpecBoolAt(&n, l.Body, "lemma "+l.Name)
	return Forall(vars, body)
}

func (ex *Exec) proveLemmas(st *State, con *Contract) {
	for _, l := range con.Lemmas {
		c := ex.fnCtx(ex.pre, nil)
		inst := map[string]*Term{}
		var facts []*Term
		if l.Pure {
			for _, f := range st.facts {
				facts = append(facts, quantifierFreeConjuncts(f)...)
			}
		} else {
			facts = append(facts, st.facts...)
		}
		for _, p := range l.Params {
			t := c.resolveType(p.Type)
			inst[p.Name] = Fresh("lem."+p.Name, flatten(t)[0].Sort)
		}
		goal := ex.lemmaTerm(c, ex.ghosts, l, inst)
		if l.Induction != "" {
			// induction hypothesis: the lemma for all smaller non-negative values of the induction variable
			k := inst[l.Induction]
			j := BVar("j", SInt)
			inst2 := map[string]*Term{}
			for n, v := range inst {
				inst2[n] = v
			}
			inst2[l.Induction] = j
			ih := ex.lemmaTerm(c, ex.ghosts, l, inst2)
			facts = append(facts, Forall([]*Term{j}, Implies(And(Le(IntLit(0), j), Lt(j, k)), ih)))
		}
		name := fmt.Sprintf("%s#lemma[%s]", ex.Fn.Key, l.Name)
		ex.Obls = append(ex.Obls, &Obligation{Name: name, Kind: "lemma", Func: ex.Fn.Key, Desc: l.Name, Facts: facts, Goal: goal, Props: ex.curProps})
		// available afterwards
		if !l.Manual {
			st.assume(ex.lemmaTerm(c, ex.ghosts, l, nil))
		}
	}
}

// ---- abstract cue text ----

func (ex *Exec) itemTextOfStruct(st *State, item Val) *Term {
	lines, _, ok := structField(item, "Lines")
	if !ok {
		panic(specFail("txtv: not an Item value"))
	}
	lineT := elemType(lines.T)
	var args []*Term
	var sorts []Sort
	add := func(t *Term) {
		args = append(args, t)
		sorts = append(sorts, t.sort)
	}
	add(lines.C[0])
	add(lines.C[1])
	add(lines.C[2])
	for _, c := range flatten(lineT) {
		_, h := st.elemHeap(lineT, c)
		add(h)
	}
	itemsF := findField(lineT, "Items")
	liT := elemType(itemsF.Type())
	for _, c := range flatten(liT) {
		if c.Path == ".Text" {
			_, h := st.elemHeap(liT, c)
			add(h)
		}
	}
	DeclareFun("itemtxt", sorts, SStr)
	return App("itemtxt", SStr, args...)
}

func (ex *Exec) itemText(st *State, ref *Term) *Term {
	o := ex.P.Pkg.Types.Scope().Lookup("Item")
	return ex.itemTextOfStruct(st, st.loadStruct(ref, o.Type()))
}

func (ex *Exec) pureCall(c *SpecCtx, recv Val, name string, args []*SExpr) (Val, bool) {
	return Val{}, false
}

// globalKnowledge: facts about package-level variables (table facts).
func (ex *Exec) globalKnowledge(o *types.Var, v Val) []*Term {
	var out []*Term
	if fs, ok := ex.P.TableFacts[o.Pkg().Name()+"."+o.Name()]; ok {
		out = append(out, fs(v)...)
	}
	// package-level slices initialised by a composite literal or []byte("const"): non-nil, known length
	if _, isSl := o.Type().Underlying().(*types.Slice); isSl && o.Pkg() != nil && o.Pkg().Path() == repoPkgPath && len(v.C) == 4 {
		if init := ex.globalInit(o); init != nil {
			n := int64(-1)
			switch x := unparen(init).(type) {
			case *ast.CompositeLit:
				keyed := false
				for _, el := range x.Elts {
					if _, ok := el.(*ast.KeyValueExpr); ok {
						keyed = true
					}
				}
				if !keyed {
					n = int64(len(x.Elts))
				}
			case *ast.CallExpr:
				if len(x.Args) == 1 {
					if tv, ok := ex.P.Info.Types[x.Args[0]]; ok && tv.Value != nil && tv.Value.Kind() == constant.String {
						if tvf, okf := ex.P.Info.Types[x.Fun]; okf && tvf.IsType() {
							n = int64(len(constant.StringVal(tv.Value)))
						}
					}
				}
			}
			if n >= 0 {
				out = append(out, Eq(v.C[2], IntLit(n)), Neq(v.C[0], IntLit(0)), Eq(v.C[1], IntLit(0)))
			}
		}
	}
	if o.Pkg() != nil && o.Pkg().Path() == repoPkgPath {
		// package-level pointers initialised with the address of a literal are non-nil
		if _, isPtr := o.Type().Underlying().(*types.Pointer); isPtr && len(v.C) == 1 {
			if init := ex.globalInit(o); init != nil && ex.nonNilGlobalExpr(init) {
				out = append(out, Neq(v.C[0], IntLit(0)))
			}
		}
		out = append(out, ex.arrayConstFacts(o, v)...)
		if _, isMap := o.Type().Underlying().(*types.Map); isMap {
			out = append(out, ex.tableLeafFacts(o)...)
			out = append(out, ex.bimapTableFacts(o)...)
		}
	}
	// error sentinels are non-nil and pairwise distinct by identity
	if isIface(o.Type()) && strings.HasPrefix(o.Name(), "Err") || o.Name() == "EOF" || o.Name() == "ErrUnexpectedEOF" {
		if len(v.C) == 2 {
			out = append(out, Neq(v.C[0], IntLit(0)))
			id := int64(len(ex.sentinels) + 1)
			ex.sentinels = append(ex.sentinels, o.Name())
			out = append(out, Eq(v.C[1], IntLit(-id)))
		}
	}
	return out
}

func hasQuantifier(t *Term) bool {
	seen := map[int]bool{}
	var rec func(t *Term) bool
	rec = func(t *Term) bool {
		if t.kind == 2 {
			return true
		}
		if seen[t.id] {
			return false
		}
		seen[t.id] = true
		for _, a := range t.args {
			if rec(a) {
				return true
			}
		}
		return false
	}
	return rec(t)
}

func quantifierFreeConjuncts(f *Term) []*Term {
	if f.kind == 0 && f.op == "and" {
		var out []*Term
		for _, a := range f.args {
			out = append(out, quantifierFreeConjuncts(a)...)
		}
		return out
	}
	if hasQuantifier(f) {
		return nil
	}
	return []*Term{f}
}

// applyUses assumes ground instances of proved lemmas at a program point.
func (ex *Exec) applyUses(st *State, uses []*LemmaUse, when string, pos token.Pos) {
	con := ex.curFn.Contract
	if con == nil {
		return
	}
	for _, u := range uses {
		if u.When != when {
			continue
		}
		var lem *Lemma
		for _, l := range con.Lemmas {
			if l.Name == u.Name {
				lem = l
			}
		}
		if lem == nil || len(lem.Params) != len(u.Args) {
			panic(undecided{fmt.Sprintf("%s: use of unknown lemma %s", ex.curFn.Key, u.Name)})
		}
		c := ex.specCtxAt(st, pos)
		inst := map[string]*Term{}
		func() {
			defer func() {
				if r := recover(); r != nil {
					if sf, ok := r.(specFail); ok {
						panic(undecided{fmt.Sprintf("%s: contract error in use %s: %s", ex.curFn.Key, u.Name, string(sf))})
					}
					panic(r)
				}
			}()
			for i, p := range lem.Params {
				inst[p.Name] = c.evalTerm(u.Args[i])
			}
		}()
		// the lemma body is stated over the pre-state (ghost functions); parameters are substituted
		lc := ex.fnCtx(ex.pre, nil)
		st.assume(ex.lemmaTerm(lc, ex.ghosts, lem, inst))
	}
}

func hasFnRequires(c *Contract) bool {
	for _, r := range c.Requires {
		if isFnLabel(r.Label) {
			return true
		}
	}
	return false
}
