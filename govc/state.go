package main

// Symbolic state: local store, per-field heap arrays, path facts, allocation counter.

import (
	"fmt"
	"go/types"
	"sort"
	"strings"
)

type State struct {
	vars  map[types.Object]Val
	heap  map[string]*Term
	facts []*Term
	ctr   *Term
	ghost map[string]Val // ghost variables (loop ghosts, call ghosts)
	epoch string         // suffix for lazily created heap symbols
	// conditions on which the state should be split into two specialised states
	// at the next statement boundary (e.g. "append was in place")
	pendingSplits []*Term
	// ghost results of the latest call per callee on this path: "Callee$name" -> instance
	callGhosts map[string]*GhostInst
	// ids of the facts that are branching conditions (path condition proper); the other facts are
	// consequences/assumptions valid on the path
	branch map[int]bool
}

func newState() *State {
	return &State{vars: map[types.Object]Val{}, heap: map[string]*Term{}, ghost: map[string]Val{}}
}

func (s *State) clone() *State {
	n := &State{vars: make(map[types.Object]Val, len(s.vars)), heap: make(map[string]*Term, len(s.heap)), ctr: s.ctr, ghost: make(map[string]Val, len(s.ghost)), epoch: s.epoch}
	for k, v := range s.vars {
		n.vars[k] = v
	}
	for k, v := range s.heap {
		n.heap[k] = v
	}
	for k, v := range s.ghost {
		n.ghost[k] = v
	}
	n.facts = append([]*Term(nil), s.facts...)
	n.pendingSplits = append([]*Term(nil), s.pendingSplits...)
	n.callGhosts = copyGhosts(s.callGhosts)
	if s.branch != nil {
		n.branch = make(map[int]bool, len(s.branch))
		for k := range s.branch {
			n.branch[k] = true
		}
	}
	return n
}

// assumeBranch records a branching condition (if/switch/loop condition, path split).
func (s *State) assumeBranch(f *Term) {
	if f == True {
		return
	}
	s.assume(f)
	if s.branch == nil {
		s.branch = map[int]bool{}
	}
	s.branch[f.id] = true
}

// disc is the condition that distinguishes this path from its siblings after the first n facts:
// the conjunction of its branching conditions (all facts when none is tagged).
func (s *State) disc(n int) *Term {
	if n > len(s.facts) {
		n = len(s.facts)
	}
	var bs []*Term
	for _, f := range s.facts[n:] {
		if s.branch[f.id] {
			bs = append(bs, f)
		}
	}
	if len(bs) == 0 {
		return And(s.facts[n:]...)
	}
	return And(bs...)
}

func copyGhosts(m map[string]*GhostInst) map[string]*GhostInst {
	if m == nil {
		return nil
	}
	o := make(map[string]*GhostInst, len(m))
	for k, v := range m {
		o[k] = v
	}
	return o
}

func (s *State) setCallGhost(key string, g *GhostInst) {
	if s.callGhosts == nil {
		s.callGhosts = map[string]*GhostInst{}
	}
	s.callGhosts[key] = g
}

// specialize returns a copy of s in which the boolean term c is replaced by the
// constant v everywhere (and c, resp. not c, is assumed).
func (s *State) specialize(c *Term, v bool) *State {
	m := map[int]*Term{c.id: BoolLit(v)}
	memo := map[int]*Term{}
	sub := func(t *Term) *Term { return substMemo(t, m, memo) }
	n := &State{vars: make(map[types.Object]Val, len(s.vars)), heap: make(map[string]*Term, len(s.heap)), ghost: make(map[string]Val, len(s.ghost)), epoch: s.epoch}
	subVal := func(x Val) Val {
		o := Val{T: x.T, C: make([]*Term, len(x.C)), Aux: x.Aux}
		for i, t := range x.C {
			o.C[i] = sub(t)
		}
		return o
	}
	for k, x := range s.vars {
		n.vars[k] = subVal(x)
	}
	for k, x := range s.ghost {
		n.ghost[k] = subVal(x)
	}
	for k, t := range s.heap {
		n.heap[k] = sub(t)
	}
	n.ctr = sub(s.ctr)
	n.callGhosts = copyGhosts(s.callGhosts)
	for _, f := range s.facts {
		g := sub(f)
		if g != True {
			n.facts = append(n.facts, g)
		}
	}
	n.branch = map[int]bool{}
	for _, f := range n.facts {
		// branch tags follow the substituted facts only when unchanged
		if s.branch[f.id] {
			n.branch[f.id] = true
		}
	}
	if v {
		n.assumeBranch(c)
	} else {
		n.assumeBranch(Not(c))
	}
	for _, p := range s.pendingSplits {
		if p != c {
			q := sub(p)
			if q != True && q != False {
				n.pendingSplits = append(n.pendingSplits, q)
			}
		}
	}
	return n
}

func (s *State) assume(f *Term) {
	if f == True {
		return
	}
	s.facts = append(s.facts, f)
}

func (s *State) pc() *Term { return And(s.facts...) }

// heapSorts remembers the sort of every heap array name.
var heapSorts = map[string]Sort{}

// heapCompInfo records, per heap array name, what kind of values it stores, so
// that the memory-model type invariant can be attached to every symbol standing
// for that array (ids below the allocation counter, slice header components
// non-negative, machine integer ranges).
type heapInfo struct {
	kind   CompKind
	nested bool
	t      types.Type
}

var heapCompInfo = map[string]heapInfo{}

func (s *State) heapGet(name string, sort Sort) *Term {
	if t, ok := s.heap[name]; ok {
		return t
	}
	if old, ok := heapSorts[name]; ok && old != sort {
		panic(fmt.Sprintf("heap %s: sort %s vs %s", name, old, sort))
	}
	heapSorts[name] = sort
	t := Sym(name, sort)
	registerHeapAxiom(t, name, Sym("ctr$0", SInt))
	s.heap[name] = t
	return t
}

func (s *State) heapSet(name string, t *Term) {
	heapSorts[name] = t.sort
	s.heap[name] = t
}

var heapAxiomDone = map[string]bool{}

// registerHeapAxiom attaches the type invariant to a heap symbol.
func registerHeapAxiom(sym *Term, name string, ctr *Term) {
	if heapAxiomDone[sym.op] {
		return
	}
	info, ok := heapCompInfo[name]
	if !ok {
		return
	}
	heapAxiomDone[sym.op] = true
	var vars []*Term
	var sel *Term
	if info.nested {
		a := BVar("a", SInt)
		idx, _ := arrParts(sym.sort)
		_, inner := arrParts(sym.sort)
		iidx, _ := arrParts(inner)
		_ = idx
		i := BVar("i", iidx)
		vars = []*Term{a, i}
		sel = Select(Select(sym, a), i)
	} else {
		r := BVar("r", SInt)
		vars = []*Term{r}
		sel = Select(sym, r)
	}
	var body *Term
	switch info.kind {
	case CRef, CArrID, CMap:
		body = And(Lt(sel, ctr), Ge(sel, IntLit(0)))
	case CSliceI:
		body = Ge(sel, IntLit(0))
	case CInt:
		if lo, hi, ok := intRange(info.t); ok {
			body = And(Le(lo, sel), Le(sel, hi))
		}
	}
	if body != nil {
		addAxiomFor(sym.op, Forall(vars, body, []*Term{sel}))
	}
}

var axiomsFor = map[string][]*Term{}

func addAxiomFor(name string, ax *Term) {
	for _, x := range axiomsFor[name] {
		if x == ax {
			return
		}
	}
	axiomsFor[name] = append(axiomsFor[name], ax)
}

func (s *State) alloc() *Term {
	id := s.ctr
	s.ctr = Add(s.ctr, IntLit(1))
	return id
}

// ---- struct fields ----

func structKey(t types.Type) string {
	if p, ok := t.Underlying().(*types.Pointer); ok {
		t = p.Elem()
	}
	return typeKey(t)
}

func fieldHeapName(structT types.Type, field string, c Comp) string {
	return "H$" + structKey(structT) + "." + field + c.Path
}

func markRefHolding(name string, c Comp, nested bool) {
	if _, ok := heapCompInfo[name]; !ok {
		heapCompInfo[name] = heapInfo{kind: c.Kind, nested: nested, t: c.T}
	}
}

func findField(structT types.Type, field string) *types.Var {
	st, ok := structT.Underlying().(*types.Struct)
	if !ok {
		return nil
	}
	for i := 0; i < st.NumFields(); i++ {
		if st.Field(i).Name() == field {
			return st.Field(i)
		}
	}
	return nil
}

func (s *State) loadField(ref *Term, structT types.Type, field string) Val {
	f := findField(structT, field)
	if f == nil {
		panic(fmt.Sprintf("no field %s in %v", field, structT))
	}
	cs := flatten(f.Type())
	v := Val{T: f.Type(), C: make([]*Term, len(cs))}
	for i, c := range cs {
		name := fieldHeapName(structT, field, c)
		markRefHolding(name, c, false)
		h := s.heapGet(name, SArr(SInt, c.Sort))
		v.C[i] = Select(h, ref)
	}
	return v
}

func (s *State) storeField(ref *Term, structT types.Type, field string, v Val) {
	f := findField(structT, field)
	if f == nil {
		panic(fmt.Sprintf("no field %s in %v", field, structT))
	}
	cs := flatten(f.Type())
	if len(cs) != len(v.C) {
		panic(fmt.Sprintf("storeField %s.%s: arity %d vs %d (%v)", structKey(structT), field, len(cs), len(v.C), v))
	}
	for i, c := range cs {
		name := fieldHeapName(structT, field, c)
		markRefHolding(name, c, false)
		h := s.heapGet(name, SArr(SInt, c.Sort))
		s.heapSet(name, Store(h, ref, v.C[i]))
	}
}

// loadStruct reads a whole struct value at ref.
func (s *State) loadStruct(ref *Term, structT types.Type) Val {
	st, ok := structT.Underlying().(*types.Struct)
	if !ok || isOpaqueStruct(structT) {
		return s.loadBox(ref, structT)
	}
	out := Val{T: structT}
	for i := 0; i < st.NumFields(); i++ {
		fv := s.loadField(ref, structT, st.Field(i).Name())
		out.C = append(out.C, fv.C...)
	}
	if len(out.C) == 0 {
		out.C = []*Term{IntLit(0)}
	}
	return out
}

func (s *State) storeStruct(ref *Term, structT types.Type, v Val) {
	st, ok := structT.Underlying().(*types.Struct)
	if !ok || isOpaqueStruct(structT) {
		s.storeBox(ref, structT, v)
		return
	}
	off := 0
	for i := 0; i < st.NumFields(); i++ {
		n := len(flatten(st.Field(i).Type()))
		s.storeField(ref, structT, st.Field(i).Name(), Val{T: st.Field(i).Type(), C: v.C[off : off+n]})
		off += n
	}
}

// structField extracts a field from a struct value.
func structField(v Val, field string) (Val, int, bool) {
	st, ok := v.T.Underlying().(*types.Struct)
	if !ok {
		return Val{}, 0, false
	}
	off := 0
	for i := 0; i < st.NumFields(); i++ {
		n := len(flatten(st.Field(i).Type()))
		if st.Field(i).Name() == field {
			return Val{T: st.Field(i).Type(), C: v.C[off : off+n]}, off, true
		}
		off += n
	}
	return Val{}, 0, false
}

func withStructField(v Val, field string, fv Val) Val {
	_, off, ok := structField(v, field)
	if !ok {
		panic("withStructField: no field " + field)
	}
	out := Val{T: v.T, C: append([]*Term(nil), v.C...)}
	copy(out.C[off:off+len(fv.C)], fv.C)
	return out
}

// ---- boxes: pointers to non-struct values ----

func (s *State) loadBox(ref *Term, t types.Type) Val {
	cs := flatten(t)
	v := Val{T: t, C: make([]*Term, len(cs))}
	for i, c := range cs {
		name := "B$" + typeKey(t) + c.Path
		markRefHolding(name, c, false)
		h := s.heapGet(name, SArr(SInt, c.Sort))
		v.C[i] = Select(h, ref)
	}
	return v
}

func (s *State) storeBox(ref *Term, t types.Type, v Val) {
	cs := flatten(t)
	for i, c := range cs {
		name := "B$" + typeKey(t) + c.Path
		markRefHolding(name, c, false)
		h := s.heapGet(name, SArr(SInt, c.Sort))
		s.heapSet(name, Store(h, ref, v.C[i]))
	}
}

// ---- slices ----

type SliceParts struct{ arr, off, len, cap *Term }

func sliceParts(v Val) SliceParts {
	if len(v.C) != 4 {
		panic(fmt.Sprintf("not a slice value: %v", v))
	}
	return SliceParts{v.C[0], v.C[1], v.C[2], v.C[3]}
}

func mkSlice(t types.Type, arr, off, ln, cp *Term) Val {
	return Val{T: t, C: []*Term{arr, off, ln, cp}}
}

func elemType(t types.Type) types.Type {
	switch u := t.Underlying().(type) {
	case *types.Slice:
		return u.Elem()
	case *types.Array:
		return u.Elem()
	case *types.Pointer:
		if a, ok := u.Elem().Underlying().(*types.Array); ok {
			return a.Elem()
		}
	case *types.Basic:
		if u.Info()&types.IsString != 0 {
			return tByte
		}
	}
	panic(fmt.Sprintf("elemType of %v", t))
}

func elemHeapName(et types.Type, c Comp) string { return "E$" + typeKey(et) + c.Path }

func (s *State) elemHeap(et types.Type, c Comp) (string, *Term) {
	name := elemHeapName(et, c)
	markRefHolding(name, c, true)
	return name, s.heapGet(name, SArr(SInt, SArr(SInt, c.Sort)))
}

// elemLoad reads slice element at absolute position off+idx.
func (s *State) elemLoad(sl Val, idx *Term) Val {
	p := sliceParts(sl)
	et := elemType(sl.T)
	cs := flatten(et)
	v := Val{T: et, C: make([]*Term, len(cs))}
	pos := Add(p.off, idx)
	for i, c := range cs {
		_, h := s.elemHeap(et, c)
		v.C[i] = Select(Select(h, p.arr), pos)
	}
	return v
}

func (s *State) elemStore(sl Val, idx *Term, v Val) {
	p := sliceParts(sl)
	et := elemType(sl.T)
	cs := flatten(et)
	pos := Add(p.off, idx)
	if len(cs) != len(v.C) {
		panic(fmt.Sprintf("elemStore arity: %v into %v", v, sl.T))
	}
	for i, c := range cs {
		name, h := s.elemHeap(et, c)
		inner := Select(h, p.arr)
		s.heapSet(name, Store(h, p.arr, Store(inner, pos, v.C[i])))
	}
}

// ---- maps ----

func mapKeySort(t types.Type) Sort {
	m := t.Underlying().(*types.Map)
	cs := flatten(m.Key())
	if len(cs) != 1 {
		return SInt
	}
	return cs[0].Sort
}

func mapHeapBase(t types.Type) string {
	m := t.Underlying().(*types.Map)
	return "M$" + typeKey(m.Key()) + "$" + typeKey(m.Elem())
}

func (s *State) mapDom(m Val) (string, *Term) {
	name := mapHeapBase(m.T) + "$dom"
	return name, s.heapGet(name, SArr(SInt, SArr(mapKeySort(m.T), SBool)))
}

func (s *State) mapHas(m Val, key *Term) *Term {
	_, d := s.mapDom(m)
	return Select(Select(d, m.C[0]), key)
}

func (s *State) mapValHeap(m Val, c Comp) (string, *Term) {
	name := mapHeapBase(m.T) + "$val" + c.Path
	markRefHolding(name, c, true)
	return name, s.heapGet(name, SArr(SInt, SArr(mapKeySort(m.T), c.Sort)))
}

// mapGet returns the stored value (meaningful only when the key is present).
func (s *State) mapGetRaw(m Val, key *Term) Val {
	et := m.T.Underlying().(*types.Map).Elem()
	cs := flatten(et)
	v := Val{T: et, C: make([]*Term, len(cs))}
	for i, c := range cs {
		_, h := s.mapValHeap(m, c)
		v.C[i] = Select(Select(h, m.C[0]), key)
	}
	return v
}

// mapGet implements m[k] (zero value when absent).
func (s *State) mapGet(m Val, key *Term) Val {
	raw := s.mapGetRaw(m, key)
	has := And(Neq(m.C[0], IntLit(0)), s.mapHas(m, key))
	return iteVal(has, raw, zeroVal(raw.T))
}

func (s *State) mapSet(m Val, key *Term, v Val) {
	et := m.T.Underlying().(*types.Map).Elem()
	cs := flatten(et)
	dn, d := s.mapDom(m)
	s.heapSet(dn, Store(d, m.C[0], Store(Select(d, m.C[0]), key, True)))
	for i, c := range cs {
		name, h := s.mapValHeap(m, c)
		s.heapSet(name, Store(h, m.C[0], Store(Select(h, m.C[0]), key, v.C[i])))
	}
}

func (s *State) mapDelete(m Val, key *Term) {
	dn, d := s.mapDom(m)
	s.heapSet(dn, Store(d, m.C[0], Store(Select(d, m.C[0]), key, False)))
}

// ---- merging ----

// mergeStates builds the state equal to a when c holds and b otherwise. base is
// the state both were forked from (its facts form the common prefix).
func mergeStates(c *Term, a, b *State, nbase int) *State {
	out := &State{vars: map[types.Object]Val{}, heap: map[string]*Term{}, ghost: map[string]Val{}, epoch: a.epoch}
	for k, va := range a.vars {
		if vb, ok := b.vars[k]; ok {
			if len(va.C) == len(vb.C) {
				out.vars[k] = iteVal(c, va, vb)
			}
		}
	}
	for k, va := range a.ghost {
		if vb, ok := b.ghost[k]; ok && len(va.C) == len(vb.C) {
			out.ghost[k] = iteVal(c, va, vb)
		}
	}
	keys := map[string]bool{}
	for k := range a.heap {
		keys[k] = true
	}
	for k := range b.heap {
		keys[k] = true
	}
	var ks []string
	for k := range keys {
		ks = append(ks, k)
	}
	sort.Strings(ks)
	for _, k := range ks {
		ha := a.heapGet(k, heapSorts[k])
		hb := b.heapGet(k, heapSorts[k])
		out.heap[k] = Ite(c, ha, hb)
	}
	out.ctr = Ite(c, a.ctr, b.ctr)
	for k, g := range a.callGhosts {
		if b.callGhosts[k] == g {
			out.setCallGhost(k, g)
		}
	}
	// facts: common prefix + disjunction of the rests
	n := nbase
	if n > len(a.facts) {
		n = len(a.facts)
	}
	if n > len(b.facts) {
		n = len(b.facts)
	}
	for i := 0; i < n; i++ {
		if a.facts[i] != b.facts[i] {
			n = i
			break
		}
	}
	out.facts = append(out.facts, a.facts[:n]...)
	out.branch = map[int]bool{}
	for _, f := range out.facts {
		if a.branch[f.id] {
			out.branch[f.id] = true
		}
	}
	da, db := a.disc(n), b.disc(n)
	if Not(da) != db {
		out.assumeBranch(Or(da, db))
	}
	for _, f := range a.facts[n:] {
		if !a.branch[f.id] || da == And(a.facts[n:]...) {
			if da != And(a.facts[n:]...) {
				out.assume(Implies(da, f))
			}
		}
	}
	for _, f := range b.facts[n:] {
		if !b.branch[f.id] || db == And(b.facts[n:]...) {
			if db != And(b.facts[n:]...) {
				out.assume(Implies(db, f))
			}
		}
	}
	return out
}

func describeHeapName(n string) string { return strings.TrimPrefix(n, "H$") }
