package main

// C16 bounded stand-in (thorough tier only): exhaustive run of the real
// parse(format(t)) pairs. Never counted as proved.

import (
	"fmt"
	"os"
	"os/exec"
	"path/filepath"
	"strings"
)

const c16SweepTest = `package astisub

import (
	"runtime"
	"sync"
	"testing"
	"time"
)

func TestVerifC16Sweep(t *testing.T) {
	type codec struct {
		name   string
		format func(time.Duration) string
		parse  func(string) (time.Duration, error)
		unit   time.Duration
	}
	codecs := []codec{
		{"srt", formatDurationSRT, parseDurationSRT, time.Millisecond},
		{"webvtt", formatDurationWebVTT, parseDurationWebVTT, time.Millisecond},
		{"ssa", formatDurationSSA, parseDurationSSA, 10 * time.Millisecond},
	}
	var mu sync.Mutex
	bad := 0
	report := func(f string, a ...interface{}) {
		mu.Lock()
		defer mu.Unlock()
		bad++
		if bad <= 10 {
			t.Errorf(f, a...)
		}
	}
	check := func(c codec, d time.Duration) {
		s := c.format(d)
		got, err := c.parse(s)
		want := d - d%c.unit
		if err != nil || got != want {
			report("%s: %v renders %q, read back %v (err %v), want %v", c.name, d, s, got, err, want)
		}
		if s2 := c.format(got); err == nil && s2 != s {
			report("%s: second write %q differs from first %q", c.name, s2, s)
		}
	}
	workers := runtime.NumCPU()
	var wg sync.WaitGroup
	const day = 24 * time.Hour
	for w := 0; w < workers; w++ {
		wg.Add(1)
		go func(w int) {
			defer wg.Done()
			for _, c := range codecs {
				for d := time.Duration(w) * time.Millisecond; d < day; d += time.Duration(workers) * time.Millisecond {
					check(c, d)
				}
			}
		}(w)
	}
	wg.Wait()
	for _, c := range codecs {
		for _, h := range []int{0, 1, 9, 10, 23, 24, 99} {
			for _, u := range []time.Duration{time.Hour, time.Minute, time.Second, time.Millisecond, 10 * time.Millisecond} {
				for _, k := range []time.Duration{0, 1, 59} {
					for _, e := range []time.Duration{-1, 0, 1} {
						d := time.Duration(h)*time.Hour + k*u + e
						if d >= 0 && d < 100*time.Hour {
							check(c, d)
						}
					}
				}
			}
		}
	}
	// STL string timecodes: every frame
	for _, fr := range []int{25, 30} {
		for f := 0; f < 24*3600*fr; f++ {
			d := time.Duration(f/fr)*time.Second + time.Duration((1000000000*(f%fr)+fr-1)/fr)
			s := formatDurationSTL(d, fr)
			got, err := parseDurationSTL(s, fr)
			if err != nil || got != d {
				report("stl %dfps: frame %d (%v) renders %q, read back %v (err %v)", fr, f, d, s, got, err)
			}
		}
	}
	if bad > 0 {
		t.Fatalf("%d mismatches", bad)
	}
}
`

func c16Special(p *Program, run *CheckRun) {
	if run.Tier != "thorough" {
		run.Extra["bounded_standin_run"] = "not run in the quick tier"
		return
	}
	work := filepath.Join(verifDir, "work")
	os.MkdirAll(work, 0o755)
	testFile := filepath.Join(work, "c16_sweep_test.go")
	os.WriteFile(testFile, []byte(c16SweepTest), 0o644)
	ov := filepath.Join(work, "c16_overlay.json")
	os.WriteFile(ov, []byte(fmt.Sprintf(`{"Replace":{"%s/zz_verif_c16_sweep_test.go":"%s"}}`, repoDir, testFile)), 0o644)
	cmd := exec.Command("go", "test", "-overlay", ov, "-vet=off", "-count=1", "-timeout", "30m", "-run", "^TestVerifC16Sweep$", ".")
	cmd.Dir = repoDir
	cmd.Env = append(os.Environ(), "GOFLAGS=-mod=mod", "GOPROXY=off", "GOSUMDB=off", "GOTOOLCHAIN=local")
	out, err := cmd.CombinedOutput()
	os.Remove(ov)
	res := "pass"
	if err != nil {
		res = "FAIL: " + trunc(string(out), 1500)
		path := writeReplay(run, "bounded-standin-parse-format", map[string]interface{}{"obligation": "bounded stand-in: parse(format(t)) sweep", "output": trunc(string(out), 4000), "test": testFile})
		run.Lines = append(run.Lines, fmt.Sprintf("VIOLATION property=%s replay=%s", run.ID, path))
		run.Viol++
	}
	run.Extra["bounded_standin_run"] = map[string]interface{}{"what": "real parse(format(t)) for SRT/WebVTT/SSA on every millisecond of [0,24h) and boundary values; STL string timecodes on every frame at 25 and 30 fps", "result": res, "labelled": "bounded (exhaustive on the stated grid), not counted as proved", "output_tail": trunc(strings.TrimSpace(string(out)), 300)}
}
