package main

// Sharded, cached execution of the safety sweep. The functions are distributed over worker
// processes (the term tables are process-global); the merged result is cached under a digest of
// everything it depends on (the package sources and contracts of the working tree, the extern
// contracts, the engine binary and the solver timeout), so the properties that share the sweep
// (C08, C18, C19, C20) pay for it once per tree state.

import (
	"crypto/sha256"
	"encoding/hex"
	"encoding/json"
	"fmt"
	"go/ast"
	"io"
	"os"
	"os/exec"
	"path/filepath"
	"runtime"
	"sort"
	"strings"
	"sync"
	"time"
)

type SweepResult struct {
	Digest   string
	TimeoutS int
	WallS    float64
	Workers  int
	Results  []*FuncResult
	CacheHit bool `json:"-"`
}

func hashFile(h io.Writer, path string) {
	f, err := os.Open(path)
	if err != nil {
		fmt.Fprintf(h, "missing:%s\n", path)
		return
	}
	defer f.Close()
	fmt.Fprintf(h, "file:%s\n", filepath.Base(path))
	io.Copy(h, f)
}

func sweepDigest(timeout int, keys []string) string {
	h := sha256.New()
	var files []string
	for _, pat := range []string{filepath.Join(repoDir, "*.go"), filepath.Join(repoDir, "go.mod"), filepath.Join(repoDir, "go.sum"),
		filepath.Join(verifDir, "contracts", "*.gvc"), filepath.Join(verifDir, "contracts", "fp", "*.smt2")} {
		m, _ := filepath.Glob(pat)
		files = append(files, m...)
	}
	sort.Strings(files)
	for _, f := range files {
		if strings.HasSuffix(f, "_test.go") {
			continue
		}
		hashFile(h, f)
	}
	if exe, err := os.Executable(); err == nil {
		hashFile(h, exe)
	}
	fmt.Fprintf(h, "timeout=%d keys=%s", timeout, strings.Join(keys, ","))
	return hex.EncodeToString(h.Sum(nil))[:24]
}

func funcWeight(fi *FuncInfo) int {
	if fi == nil || fi.Body == nil {
		return 1
	}
	n := 1
	ast.Inspect(fi.Body, func(nd ast.Node) bool {
		switch nd.(type) {
		case *ast.ForStmt, *ast.RangeStmt:
			n += 40
		case *ast.CallExpr:
			n += 3
		case ast.Stmt:
			n++
		}
		return true
	})
	return n
}

// sweepBatches groups the functions: heavy ones alone, light ones together.
func sweepBatches(p *Program, keys []string) [][]string {
	type kw struct {
		k string
		w int
	}
	var ws []kw
	total := 0
	for _, k := range keys {
		w := funcWeight(p.Funcs[k])
		ws = append(ws, kw{k, w})
		total += w
	}
	sort.SliceStable(ws, func(i, j int) bool { return ws[i].w > ws[j].w })
	cap := total / 48
	if cap < 60 {
		cap = 60
	}
	var out [][]string
	var cur []string
	curW := 0
	for _, x := range ws {
		if x.w >= cap {
			out = append(out, []string{x.k})
			continue
		}
		cur = append(cur, x.k)
		curW += x.w
		if curW >= cap {
			out = append(out, cur)
			cur, curW = nil, 0
		}
	}
	if len(cur) > 0 {
		out = append(out, cur)
	}
	return out
}

func runSweepSharded(p *Program, keys []string, timeout int, workers int) ([]*FuncResult, error) {
	exe, err := os.Executable()
	if err != nil {
		return nil, err
	}
	dir := filepath.Join(verifDir, "work", "sweep-shards")
	os.RemoveAll(dir)
	os.MkdirAll(dir, 0o755)
	batches := sweepBatches(p, keys)
	type job struct {
		i    int
		keys []string
	}
	jobs := make(chan job)
	var mu sync.Mutex
	byKey := map[string]*FuncResult{}
	var firstErr error
	var wg sync.WaitGroup
	par := runtime.NumCPU() / workers
	if par < 2 {
		par = 2
	}
	for w := 0; w < workers; w++ {
		wg.Add(1)
		go func() {
			defer wg.Done()
			for j := range jobs {
				out := filepath.Join(dir, fmt.Sprintf("shard-%03d.json", j.i))
				cmd := exec.Command(exe, "sweep", "-t", fmt.Sprint(timeout), "-f", strings.Join(j.keys, ","), "-out", out, "-par", fmt.Sprint(par), "-vc", fmt.Sprintf("sweep-%03d", j.i))
				cmd.Env = os.Environ()
				cmd.Stdout = io.Discard
				cmd.Stderr = io.Discard
				runErr := cmd.Run()
				var rs []*FuncResult
				b, rerr := os.ReadFile(out)
				if rerr == nil {
					rerr = json.Unmarshal(b, &rs)
				}
				mu.Lock()
				if rerr != nil {
					// the worker died (panic, out of memory): its functions are undecided, never silently dropped
					for _, k := range j.keys {
						byKey[k] = &FuncResult{Key: k, Undecided: fmt.Sprintf("sweep worker failed: %v %v", runErr, rerr)}
					}
					if firstErr == nil {
						firstErr = rerr
					}
				} else {
					for _, r := range rs {
						byKey[r.Key] = r
					}
					for _, k := range j.keys {
						if byKey[k] == nil {
							byKey[k] = &FuncResult{Key: k, Undecided: "sweep worker returned no result"}
						}
					}
				}
				mu.Unlock()
			}
		}()
	}
	for i, b := range batches {
		jobs <- job{i, b}
	}
	close(jobs)
	wg.Wait()
	var out []*FuncResult
	for _, k := range keys {
		out = append(out, byKey[k])
	}
	return out, nil
}

// sweepCached returns the sweep of `keys`, from the cache when the digest matches.
func sweepCached(p *Program, keys []string, timeout int) *SweepResult {
	dg := sweepDigest(timeout, keys)
	cdir := filepath.Join(verifDir, "work", "cache")
	os.MkdirAll(cdir, 0o755)
	cfile := filepath.Join(cdir, "sweep-"+dg+".json")
	if os.Getenv("GOVC_DEV_REUSE_SWEEP") != "" {
		// development aid (never set by the registered commands): reuse the newest sweep result
		// although the engine binary changed (selection / reporting changes only)
		if all, _ := filepath.Glob(filepath.Join(cdir, "sweep-*.json")); len(all) > 0 {
			sort.Slice(all, func(i, j int) bool {
				a, _ := os.Stat(all[i])
				b, _ := os.Stat(all[j])
				return a.ModTime().After(b.ModTime())
			})
			if b, err := os.ReadFile(all[0]); err == nil {
				var sr SweepResult
				if json.Unmarshal(b, &sr) == nil {
					sr.CacheHit = true
					return &sr
				}
			}
		}
	}
	if os.Getenv("GOVC_NOCACHE") == "" {
		if b, err := os.ReadFile(cfile); err == nil {
			var sr SweepResult
			if json.Unmarshal(b, &sr) == nil && sr.Digest == dg && len(sr.Results) == len(keys) {
				sr.CacheHit = true
				return &sr
			}
		}
	}
	t0 := time.Now()
	workers := 8
	if n := runtime.NumCPU(); n < 8 {
		workers = (n + 1) / 2
	}
	rs, _ := runSweepSharded(p, keys, timeout, workers)
	// second chance: what the loaded workers left undecided ("unknown") is tried again here, alone on
	// the machine, with three times the timeout and another seed (refuted obligations stay refuted)
	var again []*Obligation
	for _, r := range rs {
		if r == nil {
			continue
		}
		for _, o := range r.Obls {
			if o.Canary || o.Auto || o.Status == "proved" || o.Status == "refuted" || o.File == "" {
				continue
			}
			if _, err := os.Stat(o.File); err != nil {
				continue
			}
			if o.FileF != "" {
				if _, err := os.Stat(o.FileF); err != nil {
					o.FileF = ""
				}
			}
			again = append(again, o)
		}
	}
	if len(again) > 0 && len(again) <= 400 {
		d := &Discharger{TimeoutS: timeout * 3, Seed: 2, Par: runtime.NumCPU() / 2, Retry: false}
		solveAll(again, d)
		for _, o := range again {
			o.Output = trunc(o.Output, 1500)
			if o.Status == "proved" {
				os.Remove(o.File)
				if o.FileF != "" {
					os.Remove(o.FileF)
				}
			}
		}
	}
	sr := &SweepResult{Digest: dg, TimeoutS: timeout, WallS: time.Since(t0).Seconds(), Workers: workers, Results: rs}
	// keep only the newest few cache files
	if old, _ := filepath.Glob(filepath.Join(cdir, "sweep-*.json")); len(old) > 6 {
		sort.Slice(old, func(i, j int) bool {
			a, _ := os.Stat(old[i])
			b, _ := os.Stat(old[j])
			return a.ModTime().Before(b.ModTime())
		})
		for _, f := range old[:len(old)-6] {
			os.Remove(f)
		}
	}
	if b, err := json.Marshal(sr); err == nil {
		os.WriteFile(cfile, b, 0o644)
	}
	return sr
}
