package main

// Inferred frames of summarised callees: for every heap array a function can
// modify syntactically, one of two properties is checked on the function's own
// body (under its preconditions) and, when proved at every return, used at the
// call sites that summarise the function:
//   full    locations that existed when the function was entered keep their value
//   params  the same, except at the objects handed in directly: the receiver and
//           pointer parameters, the pointers held in struct parameters passed by
//           value, and the backing arrays of slice parameters
// Facts are proved, never assumed.

import (
	"fmt"
	"go/types"
	"os"
	"sort"
	"strings"
)

const (
	frameNone   = 0
	frameFull   = 1
	frameParams = 2
)

var frameMemo = map[string]map[string]int{}
var frameInProgress = map[string]bool{}

// A handed reference with the heap arrays it can index: a pointer to a struct T indexes the field
// heaps H$T.*, a pointer to anything else its box B$T, a slice's backing array the element heaps
// E$elem*, a map its M$key$elem$* arrays; an interface payload may index anything.
type handedRef struct {
	t      *Term
	prefix string // "" = any heap
}

func heapHasPrefix(h, p string) bool {
	if p == "" {
		return true
	}
	if !strings.HasPrefix(h, p) {
		return false
	}
	if len(h) == len(p) {
		return true
	}
	switch h[len(p)] {
	case '.', '$', '[', '#':
		return true
	}
	return strings.HasSuffix(p, ".") || strings.HasSuffix(p, "$")
}

// handedRefs: the references through which a callee may legitimately write (see above).
func handedRefs(vals []Val) []handedRef {
	var out []handedRef
	for _, v := range vals {
		cs := flatten(v.T)
		if len(cs) != len(v.C) {
			continue
		}
		for i, c := range cs {
			switch c.Kind {
			case CRef:
				pfx := ""
				if pt, ok := c.T.Underlying().(*types.Pointer); ok {
					if _, isStruct := pt.Elem().Underlying().(*types.Struct); isStruct && !isOpaqueStruct(pt.Elem()) {
						pfx = "H$" + structKey(pt.Elem()) + "."
					} else {
						pfx = "B$" + typeKey(pt.Elem())
					}
				}
				out = append(out, handedRef{v.C[i], pfx})
			case CArrID:
				pfx := ""
				if sl, ok := c.T.Underlying().(*types.Slice); ok {
					pfx = "E$" + typeKey(sl.Elem())
				}
				out = append(out, handedRef{v.C[i], pfx})
			case CMap:
				pfx := ""
				if _, ok := c.T.Underlying().(*types.Map); ok {
					pfx = mapHeapBase(c.T) + "$"
				}
				out = append(out, handedRef{v.C[i], pfx})
			case CIfVal:
				out = append(out, handedRef{v.C[i], ""})
			}
		}
	}
	return out
}

// handedRefsDeep: handedRefs plus one level below pointer parameters: the references, backing
// arrays and maps held in the fields of the structs they point to, read in state st.
func handedRefsDeep(st *State, vals []Val) []handedRef {
	out := handedRefs(vals)
	for _, v := range vals {
		pt, ok := v.T.Underlying().(*types.Pointer)
		if !ok || len(v.C) != 1 {
			continue
		}
		if _, isStruct := pt.Elem().Underlying().(*types.Struct); !isStruct || isOpaqueStruct(pt.Elem()) {
			continue
		}
		sv := st.loadStruct(v.C[0], pt.Elem())
		out = append(out, handedRefs([]Val{sv})...)
	}
	return out
}

// exclusionsFor: the handed references that can index heap h.
func exclusionsFor(h string, refs []handedRef) []*Term {
	var out []*Term
	seen := map[int]bool{}
	for _, r := range refs {
		if heapHasPrefix(h, r.prefix) && !seen[r.t.id] {
			seen[r.t.id] = true
			out = append(out, r.t)
		}
	}
	return out
}

func heapGroup(h string) string {
	if i := strings.LastIndex(h, "."); i > 0 {
		return h[:i]
	}
	return h
}

// inferredFrames returns, per heap name, the strongest frame fi provably satisfies.
func (ex *Exec) inferredFrames(fi *FuncInfo) map[string]int {
	if m, ok := frameMemo[fi.Key]; ok {
		return m
	}
	if frameInProgress[fi.Key] || fi.Body == nil {
		return nil
	}
	frameInProgress[fi.Key] = true
	defer delete(frameInProgress, fi.Key)
	out := map[string]int{}
	sub := newExec(ex.P, fi)
	sub.safetyOnly = true
	sub.noHoudini = ex.noHoudini
	sub.frameProbe = true
	func() {
		defer func() {
			if r := recover(); r != nil {
				if _, ok := r.(undecided); ok {
					return
				}
				panic(r)
			}
		}()
		sub.curFn = fi
		sub.paramEnv = map[string]Val{}
		sub.prepareFunc(fi)
		st := sub.initState(fi)
		sub.pre = st.clone()
		var params []Val
		for _, p := range sub.paramList(fi) {
			if v, ok := sub.pre.vars[p]; ok {
				if sub.boxed[p] {
					v = sub.pre.loadStruct(v.C[0], p.Type())
				}
				params = append(params, v)
			}
		}
		handed := handedRefsDeep(sub.pre, params)
		if con := fi.Contract; con != nil {
			sub.instantiateGhostFuns(st, con, sub.fnCtx(sub.pre, nil), sub.ghosts, "fp."+sanitize(fi.Key), true)
			for i, r := range con.Requires {
				if isFnLabel(r.Label) {
					continue
				}
				st.assume(sub.evalSpecBoolAt(sub.fnCtx(st, nil), r.E, fmt.Sprintf("%s requires %d", fi.Key, i+1)))
			}
			sub.pre.facts = append([]*Term(nil), st.facts...)
		}
		o := sub.execBlock(st, fi.Body.List)
		rets := sub.retStates
		if fi.Sig.Results().Len() == 0 {
			for _, f := range o.falls {
				rets = append(rets, retOut{st: f, fn: fi})
			}
		}
		if len(rets) == 0 {
			return
		}
		// candidate heaps: modified in some return state
		cand := map[string]bool{}
		for _, r := range rets {
			for h, cur := range r.st.heap {
				if strings.HasPrefix(h, "G$") {
					continue
				}
				if cur != sub.pre.heapGet(h, heapSorts[h]) {
					cand[h] = true
				}
			}
		}
		var names []string
		for h := range cand {
			names = append(names, h)
		}
		sort.Strings(names)
		ctr0 := sub.pre.ctr
		sub.Fn = fi
		goalFor := func(h string, r retOut, mode int) *Term {
			old := sub.pre.heapGet(h, heapSorts[h])
			cur := r.st.heapGet(h, heapSorts[h])
			if cur == old {
				return True
			}
			q := BVar("r", SInt)
			cond := []*Term{Lt(q, ctr0)}
			if mode == frameParams {
				for _, p := range exclusionsFor(h, handed) {
					cond = append(cond, Neq(q, p))
				}
			}
			return Forall([]*Term{q}, Implies(And(cond...), Eq(Select(cur, q), Select(old, q))))
		}
		// prove(names, mode): the heaps (of names) for which the frame holds at every return;
		// groups of the fields of one struct type are tried together first
		prove := func(hs []string, mode int) map[string]bool {
			okm := map[string]bool{}
			groups := map[string][]string{}
			var gk []string
			for _, h := range hs {
				g := heapGroup(h)
				if _, ok := groups[g]; !ok {
					gk = append(gk, g)
				}
				groups[g] = append(groups[g], h)
			}
			var goals []*Obligation
			var owner []string
			for _, g := range gk {
				for ri, r := range rets {
					var all []*Term
					for _, h := range groups[g] {
						all = append(all, goalFor(h, r, mode))
					}
					gl := And(all...)
					if gl == True {
						continue
					}
					goals = append(goals, &Obligation{Name: fmt.Sprintf("%s#frame-infer[%s.*]#%d", fi.Key, g, ri), Kind: "auto-inv", Func: fi.Key,
						Facts: append([]*Term(nil), r.st.facts...), Goal: gl, Auto: true})
					owner = append(owner, g)
				}
			}
			sub.quickSolve(goals)
			badG := map[string]bool{}
			for i, g := range goals {
				if g.Status != "proved" {
					badG[owner[i]] = true
				}
			}
			var goals2 []*Obligation
			var owner2 []string
			for _, g := range gk {
				if !badG[g] {
					for _, h := range groups[g] {
						okm[h] = true
					}
					continue
				}
				if len(groups[g]) == 1 {
					continue
				}
				for _, h := range groups[g] {
					for ri, r := range rets {
						gl := goalFor(h, r, mode)
						if gl == True {
							continue
						}
						goals2 = append(goals2, &Obligation{Name: fmt.Sprintf("%s#frame-infer[%s]#%d", fi.Key, h, ri), Kind: "auto-inv", Func: fi.Key,
							Facts: append([]*Term(nil), r.st.facts...), Goal: gl, Auto: true})
						owner2 = append(owner2, h)
					}
				}
			}
			sub.quickSolve(goals2)
			bad := map[string]bool{}
			for i, g := range goals2 {
				if g.Status != "proved" {
					bad[owner2[i]] = true
				}
			}
			for _, g := range gk {
				if badG[g] && len(groups[g]) > 1 {
					for _, h := range groups[g] {
						if !bad[h] {
							okm[h] = true
						}
					}
				}
			}
			return okm
		}
		full := prove(names, frameFull)
		var rest []string
		for _, h := range names {
			if full[h] {
				out[h] = frameFull
			} else {
				rest = append(rest, h)
			}
		}
		if len(rest) > 0 && len(handed) > 0 {
			part := prove(rest, frameParams)
			for _, h := range rest {
				if part[h] {
					out[h] = frameParams
				}
			}
		}
		// heaps the syntactic frame mentions but no path modifies
		for h := range sub.funcModSet(fi, 0).heaps {
			if !cand[h] {
				out[h] = frameFull
			}
		}
	}()
	frameMemo[fi.Key] = out
	if os.Getenv("GOVC_HOUDINI") != "" {
		var ks []string
		for k, v := range out {
			if v == frameParams {
				k += "(params)"
			}
			ks = append(ks, k)
		}
		sort.Strings(ks)
		fmt.Fprintf(os.Stderr, "frame-infer %s preserves %v\n", fi.Key, trunc(fmt.Sprint(ks), 600))
	}
	return out
}

// preservedHeaps: the heaps fi preserves entirely (kept for callers that need only that).
func (ex *Exec) preservedHeaps(fi *FuncInfo) map[string]bool {
	out := map[string]bool{}
	for h, k := range ex.inferredFrames(fi) {
		if k == frameFull {
			out[h] = true
		}
	}
	return out
}

// assumeInferredFrames: after the heaps of ms were havocked for a call to fi, re-establish what
// fi's inferred frames guarantee. before: the heap terms before the havoc; handed: the actual
// receiver and arguments.
func (ex *Exec) assumeInferredFrames(st *State, pre *State, fi *FuncInfo, ms *ModSet, before map[string]*Term, ctrBefore *Term, handed []Val) {
	fr := ex.inferredFrames(fi)
	refs := handedRefsDeep(pre, handed)
	for _, h := range ms.heapNames() {
		k := fr[h]
		if k == frameNone {
			continue
		}
		cur := st.heapGet(h, ms.heaps[h])
		if cur == before[h] || before[h] == nil {
			continue
		}
		r := BVar("r", SInt)
		cond := []*Term{Lt(r, ctrBefore)}
		if k == frameParams {
			for _, p := range exclusionsFor(h, refs) {
				cond = append(cond, Neq(r, p))
			}
		}
		st.assume(Forall([]*Term{r}, Implies(And(cond...), Eq(Select(cur, r), Select(before[h], r))), []*Term{Select(cur, r)}))
	}
}
