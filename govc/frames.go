package main

// Inferred frames of summarised callees: for every heap array a function can
// modify syntactically, the property "locations that existed when the function
// was entered keep their value" is checked on the function's own body (under
// its preconditions) and, when proved at every return, used at call sites that
// summarise the function. Facts are proved, never assumed.

import (
	"fmt"
	"os"
	"sort"
)

var frameMemo = map[string]map[string]bool{}
var frameInProgress = map[string]bool{}

// preservedHeaps returns the heap names for which fi provably preserves pre-existing locations.
func (ex *Exec) preservedHeaps(fi *FuncInfo) map[string]bool {
	if m, ok := frameMemo[fi.Key]; ok {
		return m
	}
	if frameInProgress[fi.Key] || fi.Body == nil {
		return nil
	}
	frameInProgress[fi.Key] = true
	defer delete(frameInProgress, fi.Key)
	out := map[string]bool{}
	sub := newExec(ex.P, fi)
	sub.safetyOnly = true
	sub.noHoudini = ex.noHoudini
	sub.frameProbe = true
	func() {
		defer func() {
			if r := recover(); r != nil {
				if _, ok := r.(undecided); ok {
					return
				}
				panic(r)
			}
		}()
		sub.curFn = fi
		sub.paramEnv = map[string]Val{}
		sub.prepareFunc(fi)
		st := sub.initState(fi)
		sub.pre = st.clone()
		if con := fi.Contract; con != nil {
			sub.instantiateGhostFuns(st, con, sub.fnCtx(sub.pre, nil), sub.ghosts, "fp."+sanitize(fi.Key), true)
			for i, r := range con.Requires {
				if isFnLabel(r.Label) {
					continue
				}
				st.assume(sub.evalSpecBoolAt(sub.fnCtx(st, nil), r.E, fmt.Sprintf("%s requires %d", fi.Key, i+1)))
			}
			sub.pre.facts = append([]*Term(nil), st.facts...)
		}
		o := sub.execBlock(st, fi.Body.List)
		rets := sub.retStates
		if fi.Sig.Results().Len() == 0 {
			for _, f := range o.falls {
				rets = append(rets, retOut{st: f, fn: fi})
			}
		}
		if len(rets) == 0 {
			return
		}
		// candidate heaps: modified in some return state
		cand := map[string]bool{}
		for _, r := range rets {
			for h, cur := range r.st.heap {
				if cur != sub.pre.heapGet(h, heapSorts[h]) {
					cand[h] = true
				}
			}
		}
		var names []string
		for h := range cand {
			names = append(names, h)
		}
		sort.Strings(names)
		var goals []*Obligation
		var owner []string
		ctr0 := sub.pre.ctr
		for _, h := range names {
			old := sub.pre.heapGet(h, heapSorts[h])
			for ri, r := range rets {
				cur := r.st.heapGet(h, heapSorts[h])
				if cur == old {
					continue
				}
				q := BVar("r", SInt)
				g := Forall([]*Term{q}, Implies(Lt(q, ctr0), Eq(Select(cur, q), Select(old, q))))
				goals = append(goals, &Obligation{Name: fmt.Sprintf("%s#frame-infer[%s]#%d", fi.Key, h, ri), Kind: "auto-inv", Func: fi.Key,
					Facts: append([]*Term(nil), r.st.facts...), Goal: g, Auto: true})
				owner = append(owner, h)
			}
		}
		sub.Fn = fi
		sub.quickSolve(goals)
		bad := map[string]bool{}
		for i, g := range goals {
			if g.Status != "proved" {
				bad[owner[i]] = true
			}
		}
		for _, h := range names {
			if !bad[h] {
				out[h] = true
			}
		}
		// heaps the syntactic frame mentions but no path modifies
		for h := range sub.funcModSet(fi, 0).heaps {
			if !cand[h] {
				out[h] = true
			}
		}
	}()
	frameMemo[fi.Key] = out
	if os.Getenv("GOVC_HOUDINI") != "" {
		var ks []string
		for k := range out {
			ks = append(ks, k)
		}
		sort.Strings(ks)
		fmt.Fprintf(os.Stderr, "frame-infer %s preserves %v\n", fi.Key, ks)
	}
	return out
}
