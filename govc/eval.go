package main

// Symbolic evaluation of Go expressions.

import (
	"fmt"
	"go/ast"
	"go/constant"
	"go/token"
	"go/types"
	"math/big"
	"strings"
)

func bigInt(n int64) *big.Int { return big.NewInt(n) }

type undecided struct{ reason string }

func (ex *Exec) unsupported(n ast.Node, f string, a ...interface{}) {
	if n == nil || isNilNode(n) {
		panic(undecided{fmt.Sprintf(f, a...)})
	}
	panic(undecided{fmt.Sprintf("%s: %s", ex.P.pos(n), fmt.Sprintf(f, a...))})
}

func (ex *Exec) typeOf(e ast.Expr) types.Type { return ex.P.Info.TypeOf(e) }

func (ex *Exec) exprStr(e ast.Node) string {
	if x, ok := e.(ast.Expr); ok {
		return types.ExprString(x)
	}
	switch s := e.(type) {
	case *ast.RangeStmt:
		return "range " + types.ExprString(s.X)
	}
	return fmt.Sprintf("%T", e)
}

// eval evaluates e in st (which may be updated by calls inside e).
func (ex *Exec) eval(st *State, e ast.Expr) Val {
	if tv, ok := ex.P.Info.Types[e]; ok && tv.Value != nil {
		return constVal(tv.Value, tv.Type)
	}
	if v, ok := ex.floatKernel(st, e); ok {
		return v
	}
	switch e := e.(type) {
	case *ast.ParenExpr:
		return ex.eval(st, e.X)
	case *ast.Ident:
		return ex.evalIdent(st, e)
	case *ast.BasicLit:
		ex.unsupported(e, "literal without constant value")
	case *ast.SelectorExpr:
		return ex.evalSelector(st, e)
	case *ast.IndexExpr:
		return ex.evalIndex(st, e)
	case *ast.SliceExpr:
		return ex.evalSlice(st, e)
	case *ast.StarExpr:
		p := ex.eval(st, e.X)
		ex.nilCheck(st, e, p)
		return st.loadStruct(p.C[0], ex.typeOf(e))
	case *ast.UnaryExpr:
		return ex.evalUnary(st, e)
	case *ast.BinaryExpr:
		return ex.evalBinary(st, e)
	case *ast.CallExpr:
		vs := ex.evalCall(st, e)
		if len(vs) == 1 {
			return vs[0]
		}
		if len(vs) == 0 {
			return Val{T: types.NewTuple()}
		}
		ex.unsupported(e, "multi-value call in single-value context")
	case *ast.CompositeLit:
		return ex.evalCompositeLit(st, e, ex.typeOf(e))
	case *ast.FuncLit:
		fi := ex.P.LitInfo[e]
		return Val{T: ex.typeOf(e), C: []*Term{Fresh("closure", SInt)}, Aux: fi}
	case *ast.TypeAssertExpr:
		x := ex.eval(st, e.X)
		vs := ex.typeAssert(st, e, x, ex.typeOf(e), false)
		return vs[0]
	case *ast.KeyValueExpr:
		ex.unsupported(e, "key-value outside literal")
	}
	ex.unsupported(e, "expression %T", e)
	return Val{}
}

func (ex *Exec) evalIdent(st *State, id *ast.Ident) Val {
	obj := ex.P.Info.Uses[id]
	if obj == nil {
		obj = ex.P.Info.Defs[id]
	}
	switch o := obj.(type) {
	case *types.Nil:
		return Val{T: types.Typ[types.UntypedNil], C: []*Term{IntLit(0)}}
	case *types.Var:
		if v, ok := st.vars[o]; ok {
			if ex.boxed[o] {
				return st.loadStruct(v.C[0], o.Type())
			}
			return v
		}
		if o.Pkg() != nil && o.Parent() == o.Pkg().Scope() {
			return ex.globalVal(o)
		}
		ex.unsupported(id, "variable %s has no value", id.Name)
	case *types.Func:
		return Val{T: o.Type(), C: []*Term{Sym("fn$"+sanitize(o.FullName()), SInt)}, Aux: o}
	case *types.Const:
		return constVal(o.Val(), o.Type())
	}
	ex.unsupported(id, "identifier %s (%T)", id.Name, obj)
	return Val{}
}

// globalVal returns the (immutable) symbolic value of a package-level variable.
func (ex *Exec) globalVal(o *types.Var) Val {
	name := "G$" + sanitize(o.Pkg().Name()+"."+o.Name())
	if o.Pkg().Path() == repoPkgPath {
		name = "G$" + sanitize(o.Name())
	}
	cs := flatten(o.Type())
	v := Val{T: o.Type(), C: make([]*Term, len(cs))}
	for i, c := range cs {
		v.C[i] = Sym(name+c.Path, c.Sort)
	}
	if !ex.globalsSeen[name] {
		ex.globalsSeen[name] = true
		ex.globalFacts = append(ex.globalFacts, typeFacts(v)...)
		ex.globalFacts = append(ex.globalFacts, ex.globalKnowledge(o, v)...)
	}
	return v
}

func (ex *Exec) nilCheck(st *State, n ast.Node, p Val) {
	ex.oblig(st, "nil-deref", n, ex.exprStr(n), Neq(p.C[0], IntLit(0)))
}

func (ex *Exec) evalSelector(st *State, e *ast.SelectorExpr) Val {
	sel, ok := ex.P.Info.Selections[e]
	if !ok {
		// qualified identifier
		obj := ex.P.Info.Uses[e.Sel]
		switch o := obj.(type) {
		case *types.Var:
			return ex.globalVal(o)
		case *types.Func:
			return Val{T: o.Type(), C: []*Term{Sym("fn$"+sanitize(o.FullName()), SInt)}, Aux: o}
		case *types.Const:
			return constVal(o.Val(), o.Type())
		}
		ex.unsupported(e, "qualified identifier %s", ex.exprStr(e))
	}
	switch sel.Kind() {
	case types.FieldVal:
		x := ex.eval(st, e.X)
		return ex.selectPath(st, e, x, sel.Index())
	case types.MethodVal:
		x := ex.eval(st, e.X)
		return Val{T: sel.Type(), C: []*Term{Fresh("methodval", SInt)}, Aux: &MethodVal{Recv: x, Fn: sel.Obj().(*types.Func), RecvExpr: e.X}}
	}
	ex.unsupported(e, "selector kind")
	return Val{}
}

type MethodVal struct {
	Recv     Val
	Fn       *types.Func
	RecvExpr ast.Expr
}

// selectPath walks a (possibly embedded) field path.
func (ex *Exec) selectPath(st *State, n ast.Node, x Val, path []int) Val {
	for _, idx := range path {
		t := x.T
		if p, ok := t.Underlying().(*types.Pointer); ok {
			ex.oblig(st, "nil-deref", n, ex.exprStr(n), Neq(x.C[0], IntLit(0)))
			stt := p.Elem().Underlying().(*types.Struct)
			if isOpaqueStruct(p.Elem()) {
				x = freshVal("opaque."+stt.Field(idx).Name(), stt.Field(idx).Type())
				st.assumeAll(typeFacts(x))
				continue
			}
			x = st.loadField(x.C[0], p.Elem(), stt.Field(idx).Name())
			st.assumeAll(loadFacts(x))
			continue
		}
		stt, ok := t.Underlying().(*types.Struct)
		if !ok {
			ex.unsupported(n, "field of non-struct %v", t)
		}
		if isOpaqueStruct(t) {
			x = freshVal("opaque."+stt.Field(idx).Name(), stt.Field(idx).Type())
			st.assumeAll(typeFacts(x))
			continue
		}
		fv, _, _ := structField(x, stt.Field(idx).Name())
		x = fv
	}
	return x
}

func (s *State) assumeAll(fs []*Term) {
	for _, f := range fs {
		s.assume(f)
	}
}

// loadFacts: machine-integer ranges and slice-header sanity of values read from the heap.
func loadFacts(v Val) []*Term { return typeFacts(v) }

func (ex *Exec) evalIndex(st *State, e *ast.IndexExpr) Val {
	xt := ex.typeOf(e.X)
	switch u := xt.Underlying().(type) {
	case *types.Slice:
		x := ex.eval(st, e.X)
		i := ex.eval(st, e.Index).term()
		p := sliceParts(x)
		ex.oblig(st, "index", e, ex.exprStr(e), And(Le(IntLit(0), i), Lt(i, p.len)))
		v := st.elemLoad(x, i)
		st.assumeAll(loadFacts(v))
		return v
	case *types.Map:
		m := ex.eval(st, e.X)
		k := ex.eval(st, e.Index)
		v := st.mapGet(m, ex.mapKey(st, m, k))
		st.assumeAll(loadFacts(v))
		return v
	case *types.Basic:
		x := ex.eval(st, e.X).term()
		i := ex.eval(st, e.Index).term()
		ex.oblig(st, "index", e, ex.exprStr(e), And(Le(IntLit(0), i), Lt(i, StrLen(x))))
		b := StrAt(x, i)
		st.assume(And(Le(IntLit(0), b), Le(b, IntLit(255))))
		return scalar(tByte, b)
	case *types.Array:
		x := ex.eval(st, e.X)
		i := ex.eval(st, e.Index).term()
		ex.oblig(st, "index", e, ex.exprStr(e), And(Le(IntLit(0), i), Lt(i, IntLit(u.Len()))))
		return arrayElem(x, u, i, st)
	case *types.Pointer:
		if a, ok := u.Elem().Underlying().(*types.Array); ok {
			p := ex.eval(st, e.X)
			ex.nilCheck(st, e, p)
			x := st.loadStruct(p.C[0], u.Elem())
			i := ex.eval(st, e.Index).term()
			ex.oblig(st, "index", e, ex.exprStr(e), And(Le(IntLit(0), i), Lt(i, IntLit(a.Len()))))
			return arrayElem(x, a, i, st)
		}
	}
	ex.unsupported(e, "index of %v", xt)
	return Val{}
}

func arrayElem(x Val, u *types.Array, i *Term, st *State) Val {
	cs := flatten(u.Elem())
	out := Val{T: u.Elem(), C: make([]*Term, len(cs))}
	for k := range cs {
		out.C[k] = Select(x.C[k], i)
	}
	st.assumeAll(loadFacts(out))
	return out
}

// mapKey converts a key value to the single term indexing the map arrays.
func (ex *Exec) mapKey(st *State, m Val, k Val) *Term {
	if len(k.C) == 1 {
		return k.C[0]
	}
	// composite keys: injective encoding through an uninterpreted function
	var ss []Sort
	for _, c := range k.C {
		ss = append(ss, c.sort)
	}
	name := "key$" + typeKey(k.T)
	DeclareFun(name, ss, SInt)
	return App(name, SInt, k.C...)
}

func (ex *Exec) evalSlice(st *State, e *ast.SliceExpr) Val {
	xt := ex.typeOf(e.X)
	var lo, hi, mx *Term
	x := ex.eval(st, e.X)
	if e.Low != nil {
		lo = ex.eval(st, e.Low).term()
	}
	if e.High != nil {
		hi = ex.eval(st, e.High).term()
	}
	if e.Max != nil {
		mx = ex.eval(st, e.Max).term()
	}
	switch u := xt.Underlying().(type) {
	case *types.Slice:
		p := sliceParts(x)
		if lo == nil {
			lo = IntLit(0)
		}
		if hi == nil {
			hi = p.len
		}
		bound := p.cap
		conds := []*Term{Le(IntLit(0), lo), Le(lo, hi)}
		if mx != nil {
			conds = append(conds, Le(hi, mx), Le(mx, p.cap))
			bound = mx
		} else {
			conds = append(conds, Le(hi, p.cap))
		}
		ex.oblig(st, "slice-bounds", e, ex.exprStr(e), And(conds...))
		return mkSlice(ex.typeOf(e), p.arr, Add(p.off, lo), Sub(hi, lo), Sub(bound, lo))
	case *types.Basic:
		s := x.term()
		n := StrLen(s)
		if lo == nil {
			lo = IntLit(0)
		}
		if hi == nil {
			hi = n
		}
		ex.oblig(st, "slice-bounds", e, ex.exprStr(e), And(Le(IntLit(0), lo), Le(lo, hi), Le(hi, n)))
		return scalar(ex.typeOf(e), ex.substr(st, s, lo, hi))
	case *types.Array:
		_ = u
		ex.unsupported(e, "slicing an array value")
	case *types.Pointer:
		ex.unsupported(e, "slicing a pointer to array")
	}
	ex.unsupported(e, "slice of %v", xt)
	return Val{}
}

func (ex *Exec) substr(st *State, s, lo, hi *Term) *Term {
	if lo == IntLit(0) && hi == StrLen(s) {
		return s
	}
	DeclareFun("substr", []Sort{SStr, SInt, SInt}, SStr)
	r := App("substr", SStr, s, lo, hi)
	st.assume(Eq(StrLen(r), Sub(hi, lo)))
	return r
}

func (ex *Exec) evalUnary(st *State, e *ast.UnaryExpr) Val {
	switch e.Op {
	case token.AND:
		return ex.addressOf(st, e)
	case token.NOT:
		return boolVal(Not(ex.eval(st, e.X).term()))
	case token.SUB:
		x := ex.eval(st, e.X)
		return ex.wrap(scalar(x.T, Neg(x.term())), ex.typeOf(e))
	case token.ADD:
		return ex.eval(st, e.X)
	case token.XOR:
		x := ex.eval(st, e.X)
		// ^x = -x-1 (two's complement), wrapped to the type
		return ex.wrap(scalar(x.T, Sub(Neg(x.term()), IntLit(1))), ex.typeOf(e))
	}
	ex.unsupported(e, "unary %s", e.Op)
	return Val{}
}

func (ex *Exec) addressOf(st *State, e *ast.UnaryExpr) Val {
	pt := ex.typeOf(e)
	switch x := unparen(e.X).(type) {
	case *ast.CompositeLit:
		t := ex.typeOf(x)
		v := ex.evalCompositeLit(st, x, t)
		ref := st.alloc()
		st.storeStruct(ref, t, v)
		return scalar(pt, ref)
	case *ast.Ident:
		obj, _ := ex.P.Info.Uses[x].(*types.Var)
		if obj != nil && ex.boxed[obj] {
			if v, ok := st.vars[obj]; ok {
				return scalar(pt, v.C[0])
			}
		}
		if obj != nil && obj.Pkg() != nil && obj.Parent() == obj.Pkg().Scope() {
			// address of a package-level variable: a fixed global reference
			return scalar(pt, Sym("GA$"+sanitize(obj.Name()), SInt))
		}
		ex.unsupported(e, "address of unboxed variable %s", x.Name)
	case *ast.SelectorExpr, *ast.IndexExpr:
		// interior pointer: modelled as a pointer to a fresh copy of the current value. Sound for
		// nil-ness and for reads as long as neither side is written afterwards (no write-through
		// aliasing is modelled); recorded as an abstraction.
		ex.note("interior pointer &" + ex.exprStr(x) + " modelled as a pointer to a copy (no write-through aliasing)")
		v := ex.eval(st, x)
		ref := st.alloc()
		st.storeStruct(ref, v.T, v)
		ex.mutCount++
		return scalar(pt, ref)
	}
	ex.unsupported(e, "address-of %T", e.X)
	return Val{}
}

func unparen(e ast.Expr) ast.Expr {
	for {
		p, ok := e.(*ast.ParenExpr)
		if !ok {
			return e
		}
		e = p.X
	}
}

// wrap reduces an integer result into the range of its machine type where the
// type is narrower than 64 bits or unsigned (64-bit signed overflow is excluded
// by the bounded preconditions and reported as an assumption).
func (ex *Exec) wrap(v Val, t types.Type) Val {
	b, ok := t.Underlying().(*types.Basic)
	if !ok || len(v.C) != 1 || v.C[0].sort != SInt {
		return Val{T: t, C: v.C, Aux: v.Aux}
	}
	var bits int
	signed := false
	switch b.Kind() {
	case types.Uint8:
		bits = 8
	case types.Uint16:
		bits = 16
	case types.Uint32:
		bits = 32
	case types.Uint64, types.Uint, types.Uintptr:
		bits = 64
	case types.Int8:
		bits, signed = 8, true
	case types.Int16:
		bits, signed = 16, true
	case types.Int32:
		bits, signed = 32, true
	default:
		ex.note("mathematical integers: 64-bit signed overflow not modelled")
		return Val{T: t, C: v.C}
	}
	x := v.C[0]
	if n, ok := x.isIntLit(); ok {
		m := new(big.Int).Lsh(bigInt(1), uint(bits))
		r := new(big.Int).Mod(n, m)
		if signed && r.Cmp(new(big.Int).Lsh(bigInt(1), uint(bits-1))) >= 0 {
			r.Sub(r, m)
		}
		return scalar(t, BigLit(r))
	}
	if !signed {
		return scalar(t, EMod(x, pow2(bits, 0)))
	}
	half := pow2(bits-1, 0)
	return scalar(t, Sub(EMod(Add(x, half), pow2(bits, 0)), half))
}

func isUnsigned(t types.Type) bool {
	b, ok := t.Underlying().(*types.Basic)
	return ok && b.Info()&types.IsUnsigned != 0
}

func isFloat(t types.Type) bool {
	b, ok := t.Underlying().(*types.Basic)
	return ok && b.Info()&types.IsFloat != 0
}

func isString(t types.Type) bool {
	b, ok := t.Underlying().(*types.Basic)
	return ok && b.Info()&types.IsString != 0
}

func isInteger(t types.Type) bool {
	b, ok := t.Underlying().(*types.Basic)
	return ok && b.Info()&types.IsInteger != 0
}

func (ex *Exec) evalBinary(st *State, e *ast.BinaryExpr) Val {
	switch e.Op {
	case token.LAND, token.LOR:
		l := ex.eval(st, e.X).term()
		cond := l
		if e.Op == token.LOR {
			cond = Not(l)
		}
		// evaluate the right operand under the short-circuit condition
		r := st.clone()
		nb := len(r.facts)
		r.assumeBranch(cond)
		nstart := len(r.facts)
		mut0 := ex.mutCount
		rv := ex.eval(r, e.Y).term()
		if ex.mutCount != mut0 || r.ctr != st.ctr {
			other := st.clone()
			other.assumeBranch(Not(cond))
			m := mergeStates(cond, r, other, nb)
			*st = *m
		} else {
			for _, f := range r.facts[nstart:] {
				st.assume(Implies(cond, f))
			}
		}
		if e.Op == token.LAND {
			return boolVal(And(l, rv))
		}
		return boolVal(Or(l, rv))
	}
	x := ex.eval(st, e.X)
	y := ex.eval(st, e.Y)
	return ex.binop(st, e, e.Op, x, y, ex.typeOf(e))
}

func (ex *Exec) binop(st *State, n ast.Node, op token.Token, x, y Val, rt types.Type) Val {
	switch op {
	case token.EQL, token.NEQ:
		r := ex.valEq(st, n, x, y)
		if op == token.NEQ {
			r = Not(r)
		}
		return boolVal(r)
	}
	if len(x.C) != 1 || len(y.C) != 1 {
		ex.unsupported(n, "binary %s on composite values", op)
	}
	a, b := x.C[0], y.C[0]
	if a.sort == SStr {
		switch op {
		case token.ADD:
			return scalar(rt, Cat(a, b))
		case token.LSS, token.GTR, token.LEQ, token.GEQ:
			DeclareFun("strcmp", []Sort{SStr, SStr}, SInt)
			c := App("strcmp", SInt, a, b)
			switch op {
			case token.LSS:
				return boolVal(Lt(c, IntLit(0)))
			case token.GTR:
				return boolVal(Gt(c, IntLit(0)))
			case token.LEQ:
				return boolVal(Le(c, IntLit(0)))
			default:
				return boolVal(Ge(c, IntLit(0)))
			}
		}
	}
	if a.sort == SReal || b.sort == SReal {
		a, b = ToReal(a), ToReal(b)
		switch op {
		case token.LSS:
			return boolVal(Lt(a, b))
		case token.LEQ:
			return boolVal(Le(a, b))
		case token.GTR:
			return boolVal(Gt(a, b))
		case token.GEQ:
			return boolVal(Ge(a, b))
		}
		return scalar(rt, ex.floatOp(st, n, op, a, b))
	}
	switch op {
	case token.LSS:
		return boolVal(Lt(a, b))
	case token.LEQ:
		return boolVal(Le(a, b))
	case token.GTR:
		return boolVal(Gt(a, b))
	case token.GEQ:
		return boolVal(Ge(a, b))
	case token.ADD:
		return ex.wrap(scalar(rt, Add(a, b)), rt)
	case token.SUB:
		return ex.wrap(scalar(rt, Sub(a, b)), rt)
	case token.MUL:
		return ex.wrap(scalar(rt, Mul(a, b)), rt)
	case token.QUO:
		ex.oblig(st, "div-zero", n, ex.exprStr(n), Neq(b, IntLit(0)))
		return ex.wrap(scalar(rt, TDiv(a, b)), rt)
	case token.REM:
		ex.oblig(st, "div-zero", n, ex.exprStr(n), Neq(b, IntLit(0)))
		return scalar(rt, TMod(a, b))
	case token.SHL:
		if k, ok := b.isIntLit(); ok && k.IsInt64() && k.Int64() < 64 {
			return ex.wrap(scalar(rt, Mul(a, pow2(int(k.Int64()), 0))), rt)
		}
		return ex.bitFun(st, "shl", a, b, rt)
	case token.SHR:
		if k, ok := b.isIntLit(); ok && k.IsInt64() && k.Int64() < 64 {
			return scalar(rt, EDiv(a, pow2(int(k.Int64()), 0)))
		}
		return ex.bitFun(st, "shr", a, b, rt)
	case token.AND:
		// masks 2^k-1
		if m, ok := b.isIntLit(); ok {
			if k := maskBits(m); k >= 0 {
				return scalar(rt, EMod(a, pow2(k, 0)))
			}
		}
		if m, ok := a.isIntLit(); ok {
			if k := maskBits(m); k >= 0 {
				return scalar(rt, EMod(b, pow2(k, 0)))
			}
		}
		r := ex.bitFun(st, "bitand", a, b, rt)
		st.assume(Implies(And(Ge(a, IntLit(0)), Ge(b, IntLit(0))), And(Ge(r.C[0], IntLit(0)), Le(r.C[0], a), Le(r.C[0], b))))
		return r
	case token.OR:
		r := ex.bitFun(st, "bitor", a, b, rt)
		st.assume(Implies(And(Ge(a, IntLit(0)), Ge(b, IntLit(0))), And(Ge(r.C[0], a), Ge(r.C[0], b), Le(r.C[0], Add(a, b)))))
		return r
	case token.XOR:
		r := ex.bitFun(st, "bitxor", a, b, rt)
		st.assume(Implies(And(Ge(a, IntLit(0)), Ge(b, IntLit(0))), And(Ge(r.C[0], IntLit(0)), Le(r.C[0], Add(a, b)))))
		return r
	case token.AND_NOT:
		r := ex.bitFun(st, "bitandnot", a, b, rt)
		st.assume(Implies(And(Ge(a, IntLit(0)), Ge(b, IntLit(0))), And(Ge(r.C[0], IntLit(0)), Le(r.C[0], a))))
		return r
	}
	ex.unsupported(n, "binary operator %s", op)
	return Val{}
}

func maskBits(m *big.Int) int {
	if m.Sign() < 0 {
		return -1
	}
	x := new(big.Int).Add(m, bigInt(1))
	if x.BitLen() > 0 && new(big.Int).And(x, m).Sign() == 0 {
		return x.BitLen() - 1
	}
	return -1
}

func (ex *Exec) bitFun(st *State, name string, a, b *Term, rt types.Type) Val {
	DeclareFun(name, []Sort{SInt, SInt}, SInt)
	r := scalar(rt, App(name, SInt, a, b))
	st.assumeAll(typeFacts(r))
	ex.note("bitwise " + name + " abstracted (range facts only)")
	return r
}

// floatOp: float64 arithmetic. In the rounding-error model each operation is
// the exact real result times (1+delta), |delta| <= 2^-53; otherwise the result
// is exact real arithmetic marked as an abstraction.
func (ex *Exec) floatOp(st *State, n ast.Node, op token.Token, a, b *Term) *Term {
	var exact *Term
	switch op {
	case token.ADD:
		exact = App("+", SReal, a, b)
	case token.SUB:
		exact = App("-", SReal, a, b)
	case token.MUL:
		exact = App("*", SReal, a, b)
	case token.QUO:
		exact = App("/", SReal, a, b)
	default:
		ex.unsupported(n, "float operator %s", op)
	}
	if ex.floatModel == "rounding-error" {
		return ex.rounded(st, exact)
	}
	// outside a float model the result of a float64 operation is uninterpreted (sound
	// over-approximation); float kernels backed by FP lemmas are matched before (floatKernel)
	name := "fp$" + map[token.Token]string{token.ADD: "add", token.SUB: "sub", token.MUL: "mul", token.QUO: "div"}[op]
	DeclareFun(name, []Sort{SReal, SReal}, SReal)
	ex.note("float64 arithmetic outside a float model: results uninterpreted")
	return App(name, SReal, a, b)
}

// rounded: IEEE-754 round-to-nearest as an uninterpreted monotone function with
// a relative error of at most 2^-53 (plus a tiny absolute term covering
// subnormals). Sound for finite results; overflow to infinity and NaN are
// excluded by the range preconditions of the functions that opt into this model.
func (ex *Exec) rounded(st *State, exact *Term) *Term {
	DeclareFun("fprnd", []Sort{SReal}, SReal)
	if len(axiomsFor["fprnd"]) == 0 {
		x, y := BVar("x", SReal), BVar("y", SReal)
		rx, ry := App("fprnd", SReal, x), App("fprnd", SReal, y)
		u := RealLit("(/ 1.0 9007199254740992.0)")
		tiny := RealLit("(/ 1.0 1000000000000000000000000000000.0)")
		absx := Ite(Ge(x, RealLit("0.0")), x, Neg(x))
		bound := App("+", SReal, App("*", SReal, absx, u), tiny)
		addAxiomFor("fprnd", Forall([]*Term{x}, And(Le(App("-", SReal, x, bound), rx), Le(rx, App("+", SReal, x, bound))), []*Term{rx}))
		addAxiomFor("fprnd", Forall([]*Term{x, y}, Implies(Le(x, y), Le(rx, ry)), []*Term{rx, ry}))
	}
	ex.note("float64 operations modelled as correctly rounded results: monotone, relative error <= 2^-53 (+1e-30 absolute); no overflow/NaN (range preconditions)")
	return App("fprnd", SReal, exact)
}

func (ex *Exec) truncToInt(st *State, x *Term) *Term {
	if ex.floatModel != "rounding-error" {
		return Ite(Ge(x, RealLit("0.0")), App("to_int", SInt, x), Neg(App("to_int", SInt, Neg(x))))
	}
	DeclareFun("fptrunc", []Sort{SReal}, SInt)
	if len(axiomsFor["fptrunc"]) == 0 {
		a, b := BVar("a", SReal), BVar("b", SReal)
		ta, tb := App("fptrunc", SInt, a), App("fptrunc", SInt, b)
		ra := ToReal(ta)
		zero := RealLit("0.0")
		one := RealLit("1.0")
		addAxiomFor("fptrunc", Forall([]*Term{a}, And(
			Implies(Ge(a, zero), And(Le(zero, ra), Le(ra, a), Lt(a, App("+", SReal, ra, one)))),
			Implies(Le(a, zero), And(Le(a, ra), Le(ra, zero), Lt(App("-", SReal, ra, one), a)))), []*Term{ta}))
		addAxiomFor("fptrunc", Forall([]*Term{a, b}, Implies(Le(a, b), Le(ta, tb)), []*Term{ta, tb}))
	}
	return App("fptrunc", SInt, x)
}

func (ex *Exec) valEq(st *State, n ast.Node, x, y Val) *Term {
	if isNilVal(x) && !isNilVal(y) {
		return ex.isNil(y)
	}
	if isNilVal(y) && !isNilVal(x) {
		return ex.isNil(x)
	}
	// interface vs concrete comparison
	if isIface(x.T) && !isIface(y.T) {
		y = ex.toIface(st, y, x.T)
	} else if isIface(y.T) && !isIface(x.T) {
		x = ex.toIface(st, x, y.T)
	}
	if len(x.C) != len(y.C) {
		ex.unsupported(n, "comparison of %v and %v", x.T, y.T)
	}
	var eqs []*Term
	for i := range x.C {
		a, b := x.C[i], y.C[i]
		if a.sort != b.sort {
			a, b = ToReal(a), ToReal(b)
		}
		eqs = append(eqs, Eq(a, b))
	}
	return And(eqs...)
}

func (ex *Exec) isNil(v Val) *Term {
	switch v.T.Underlying().(type) {
	case *types.Interface:
		return Eq(v.C[0], IntLit(0))
	case *types.Slice:
		return Eq(v.C[0], IntLit(0))
	}
	return Eq(v.C[0], IntLit(0))
}

// ---- conversions ----

func (ex *Exec) convert(st *State, n ast.Node, v Val, to types.Type) Val {
	from := v.T
	if types.Identical(from, to) {
		return Val{T: to, C: v.C, Aux: v.Aux}
	}
	if isNilVal(v) {
		return zeroVal(to)
	}
	if isIface(to) {
		if isIface(from) {
			return Val{T: to, C: v.C, Aux: v.Aux}
		}
		return ex.toIface(st, v, to)
	}
	fu, tu := from.Underlying(), to.Underlying()
	if types.Identical(fu, tu) {
		return Val{T: to, C: v.C, Aux: v.Aux}
	}
	switch {
	case isInteger(to) && isInteger(from):
		return ex.convInt(v, from, to)
	case isInteger(to) && isFloat(from):
		return scalar(to, ex.truncToInt(st, v.term()))
	case isFloat(to) && isInteger(from):
		x := ToReal(v.term())
		if ex.floatModel == "rounding-error" {
			// exact below 2^53, otherwise rounded
			lim := pow2(53, 0)
			exactOK := And(Le(Neg(lim), v.term()), Le(v.term(), lim))
			if !ex.provablyWithin(st, exactOK) {
				return scalar(to, ex.rounded(st, x))
			}
		}
		return scalar(to, x)
	case isFloat(to) && isFloat(from):
		return scalar(to, v.term())
	case isString(to) && isInteger(from):
		DeclareFun("runestr", []Sort{SInt}, SStr)
		r := App("runestr", SStr, v.term())
		st.assume(And(Ge(StrLen(r), IntLit(1)), Le(StrLen(r), IntLit(4))))
		return scalar(to, r)
	case isString(to):
		if sl, ok := fu.(*types.Slice); ok {
			return scalar(to, ex.bytesToString(st, v, sl))
		}
	case isString(from):
		if sl, ok := tu.(*types.Slice); ok {
			return ex.stringToSlice(st, v, to, sl)
		}
	}
	if _, ok := tu.(*types.Pointer); ok {
		return Val{T: to, C: v.C}
	}
	if len(flatten(to)) == len(v.C) {
		return Val{T: to, C: v.C, Aux: v.Aux}
	}
	ex.unsupported(n, "conversion %v -> %v", from, to)
	return Val{}
}

func (ex *Exec) provablyWithin(st *State, cond *Term) bool {
	if cond == True {
		return true
	}
	// quick solver query: do the current facts imply the bound?
	g := &Obligation{Name: ex.Fn.Key + "#exact-conv", Kind: "auto", Func: ex.Fn.Key, Facts: append([]*Term(nil), st.facts...), Goal: cond, Auto: true}
	ex.quickSolve([]*Obligation{g})
	return g.Status == "proved"
}

func (ex *Exec) convInt(v Val, from, to types.Type) Val {
	flo, fhi, ok1 := intRange(from)
	tlo, thi, ok2 := intRange(to)
	if ok1 && ok2 {
		a, _ := flo.isIntLit()
		b, _ := fhi.isIntLit()
		c, _ := tlo.isIntLit()
		d, _ := thi.isIntLit()
		if a.Cmp(c) >= 0 && b.Cmp(d) <= 0 {
			return scalar(to, v.term())
		}
	}
	if isUntyped(from) {
		return scalar(to, v.term())
	}
	// 64-bit to 64-bit of different signedness: treated as identity under the
	// no-overflow assumption unless narrowing
	tb := to.Underlying().(*types.Basic)
	switch tb.Kind() {
	case types.Int, types.Int64:
		ex.note("uint64->int64 conversion treated as identity")
		return scalar(to, v.term())
	}
	return ex.wrap(scalar(to, v.term()), to)
}

func isUntyped(t types.Type) bool {
	b, ok := t.(*types.Basic)
	return ok && b.Info()&types.IsUntyped != 0
}

func (ex *Exec) bytesToString(st *State, v Val, sl *types.Slice) *Term {
	p := sliceParts(v)
	et := sl.Elem()
	if b, ok := et.Underlying().(*types.Basic); ok && b.Kind() == types.Uint8 {
		_, h := st.elemHeap(et, flatten(et)[0])
		DeclareFun("bytes2str", []Sort{SArr(SInt, SInt), SInt, SInt}, SStr)
		r := App("bytes2str", SStr, Select(h, p.arr), p.off, p.len)
		st.assume(Eq(StrLen(r), p.len))
		return r
	}
	// []rune -> string
	r := Fresh("runes2str", SStr)
	st.assume(And(Ge(StrLen(r), p.len), Le(StrLen(r), Mul(IntLit(4), p.len))))
	return r
}

func (ex *Exec) stringToSlice(st *State, v Val, to types.Type, sl *types.Slice) Val {
	s := v.term()
	arr := st.alloc()
	et := sl.Elem()
	c := flatten(et)[0]
	name, h := st.elemHeap(et, c)
	if b, ok := et.Underlying().(*types.Basic); ok && b.Kind() == types.Uint8 {
		DeclareFun("str2bytes", []Sort{SStr}, SArr(SInt, SInt))
		inner := App("str2bytes", SArr(SInt, SInt), s)
		k := BVar("k", SInt)
		sel := Select(inner, k)
		addAxiomFor("str2bytes", True)
		st.assume(Forall([]*Term{k}, Implies(And(Le(IntLit(0), k), Lt(k, StrLen(s))), And(Eq(sel, StrAt(s, k)), Le(IntLit(0), sel), Le(sel, IntLit(255)))), []*Term{sel}))
		st.heapSet(name, Store(h, arr, inner))
		n := StrLen(s)
		return mkSlice(to, arr, IntLit(0), n, n)
	}
	// []rune(s)
	n := Fresh("runecount", SInt)
	st.assume(And(Ge(n, IntLit(0)), Le(n, StrLen(s)), Implies(Gt(StrLen(s), IntLit(0)), Gt(n, IntLit(0)))))
	inner := Fresh("runes", SArr(SInt, SInt))
	st.heapSet(name, Store(h, arr, inner))
	return mkSlice(to, arr, IntLit(0), n, n)
}

// ---- interfaces ----

var typeTags = map[string]int64{}

func typeTag(t types.Type) *Term {
	k := types.TypeString(t, nil)
	if n, ok := typeTags[k]; ok {
		return IntLit(n)
	}
	n := int64(len(typeTags) + 1)
	typeTags[k] = n
	return IntLit(n)
}

func (ex *Exec) toIface(st *State, v Val, to types.Type) Val {
	if isIface(v.T) {
		return Val{T: to, C: v.C, Aux: v.Aux}
	}
	if isNilVal(v) {
		return zeroVal(to)
	}
	tag := typeTag(v.T)
	var payload *Term
	if len(v.C) == 1 && v.C[0].sort == SInt {
		payload = v.C[0]
	} else {
		// box through an injective uninterpreted function
		var ss []Sort
		for _, c := range v.C {
			ss = append(ss, c.sort)
		}
		name := "box$" + typeKey(v.T)
		DeclareFun(name, ss, SInt)
		payload = App(name, SInt, v.C...)
		for i, c := range v.C {
			un := fmt.Sprintf("unbox$%s$%d", typeKey(v.T), i)
			DeclareFun(un, []Sort{SInt}, c.sort)
			st.assume(Eq(App(un, c.sort, payload), c))
		}
	}
	aux := v.Aux
	if _, isSl := v.T.Underlying().(*types.Slice); isSl {
		aux = v
	}
	return Val{T: to, C: []*Term{tag, payload}, Aux: aux}
}

func (ex *Exec) fromIface(st *State, x Val, t types.Type) Val {
	if isIface(t) {
		return Val{T: t, C: x.C}
	}
	cs := flatten(t)
	if len(cs) == 1 && cs[0].Sort == SInt {
		return Val{T: t, C: []*Term{x.C[1]}}
	}
	out := Val{T: t, C: make([]*Term, len(cs))}
	for i, c := range cs {
		un := fmt.Sprintf("unbox$%s$%d", typeKey(t), i)
		DeclareFun(un, []Sort{SInt}, c.Sort)
		out.C[i] = App(un, c.Sort, x.C[1])
	}
	st.assumeAll(typeFacts(out))
	return out
}

// typeAssert: x.(T); commaOk selects the two-result form.
func (ex *Exec) typeAssert(st *State, n ast.Node, x Val, t types.Type, commaOk bool) []Val {
	var ok *Term
	if isIface(t) {
		// assertion to an interface: holds iff the dynamic type implements it (abstracted)
		okS := Fresh("implements", SBool)
		st.assume(Implies(okS, Neq(x.C[0], IntLit(0))))
		ok = okS
	} else {
		ok = Eq(x.C[0], typeTag(t))
	}
	if !commaOk {
		ex.oblig(st, "type-assert", n, ex.exprStr(n), ok)
		return []Val{ex.fromIface(st, x, t)}
	}
	v := ex.fromIface(st, x, t)
	return []Val{iteVal(ok, v, zeroVal(t)), boolVal(ok)}
}

// ---- composite literals ----

func (ex *Exec) evalCompositeLit(st *State, e *ast.CompositeLit, t types.Type) Val {
	switch u := t.Underlying().(type) {
	case *types.Struct:
		v := zeroVal(t)
		if isOpaqueStruct(t) {
			return freshVal("lit", t)
		}
		for i, el := range e.Elts {
			var fname string
			var fx ast.Expr
			if kv, ok := el.(*ast.KeyValueExpr); ok {
				fname = kv.Key.(*ast.Ident).Name
				fx = kv.Value
			} else {
				fname = u.Field(i).Name()
				fx = el
			}
			f := findField(t, fname)
			fv := ex.evalTyped(st, fx, f.Type())
			v = withStructField(v, fname, fv)
		}
		return v
	case *types.Slice:
		n := int64(0)
		type ent struct {
			idx int64
			v   Val
		}
		var ents []ent
		for _, el := range e.Elts {
			idx := n
			vx := el
			if kv, ok := el.(*ast.KeyValueExpr); ok {
				tv := ex.P.Info.Types[kv.Key]
				if tv.Value == nil {
					ex.unsupported(e, "non-constant slice literal key")
				}
				idx, _ = constant.Int64Val(tv.Value)
				vx = kv.Value
			}
			ents = append(ents, ent{idx, ex.evalTyped(st, vx, u.Elem())})
			if idx+1 > n {
				n = idx + 1
			}
			if n > idx+1 {
				n = idx + 1 + (n - idx - 1)
			}
		}
		arr := st.alloc()
		sl := mkSlice(t, arr, IntLit(0), IntLit(n), IntLit(n))
		// zero array first
		for _, c := range flatten(u.Elem()) {
			name, h := st.elemHeap(u.Elem(), c)
			st.heapSet(name, Store(h, arr, zeroOfSort(SArr(SInt, c.Sort))))
		}
		for _, en := range ents {
			st.elemStore(sl, IntLit(en.idx), en.v)
		}
		return sl
	case *types.Array:
		cs := flatten(u.Elem())
		out := Val{T: t, C: make([]*Term, len(cs))}
		for k, c := range cs {
			out.C[k] = zeroOfSort(SArr(SInt, c.Sort))
		}
		n := int64(0)
		for _, el := range e.Elts {
			idx := n
			vx := el
			if kv, ok := el.(*ast.KeyValueExpr); ok {
				tv := ex.P.Info.Types[kv.Key]
				idx, _ = constant.Int64Val(tv.Value)
				vx = kv.Value
			}
			v := ex.evalTyped(st, vx, u.Elem())
			for k := range cs {
				out.C[k] = Store(out.C[k], IntLit(idx), v.C[k])
			}
			n = idx + 1
		}
		return out
	case *types.Map:
		ref := st.alloc()
		m := Val{T: t, C: []*Term{ref}}
		dn, d := st.mapDom(m)
		st.heapSet(dn, Store(d, ref, zeroOfSort(SArr(mapKeySort(t), SBool))))
		for _, el := range e.Elts {
			kv := el.(*ast.KeyValueExpr)
			k := ex.evalTyped(st, kv.Key, u.Key())
			v := ex.evalTyped(st, kv.Value, u.Elem())
			st.mapSet(m, ex.mapKey(st, m, k), v)
		}
		return m
	case *types.Pointer:
		// elided &T{} inside slice/map literals
		et := u.Elem()
		v := ex.evalCompositeLit(st, e, et)
		ref := st.alloc()
		st.storeStruct(ref, et, v)
		return scalar(t, ref)
	}
	ex.unsupported(e, "composite literal of %v", t)
	return Val{}
}

// evalTyped evaluates e and converts it to the expected type t (implicit
// conversions: nil, untyped constants, concrete -> interface, elided literal types).
func (ex *Exec) evalTyped(st *State, e ast.Expr, t types.Type) Val {
	if cl, ok := e.(*ast.CompositeLit); ok && cl.Type == nil {
		return ex.evalCompositeLit(st, cl, t)
	}
	v := ex.eval(st, e)
	return ex.coerce(st, e, v, t)
}

func (ex *Exec) coerce(st *State, n ast.Node, v Val, t types.Type) Val {
	if t == nil {
		return v
	}
	if isNilVal(v) {
		return zeroVal(t)
	}
	if isIface(t) && !isIface(v.T) {
		return ex.toIface(st, v, t)
	}
	if isFloat(t) && len(v.C) == 1 && v.C[0].sort == SInt {
		return scalar(t, ToReal(v.C[0]))
	}
	if len(flatten(t)) != len(v.C) {
		ex.unsupported(n, "cannot coerce %v to %v", v.T, t)
	}
	return Val{T: t, C: v.C, Aux: v.Aux}
}

var _ = strings.TrimSpace
