package main

// `govc check <ID> --tier quick|thorough`: decides one property.

import (
	"encoding/json"
	"flag"
	"fmt"
	"os"
	"os/exec"
	"path/filepath"
	"runtime"
	"sort"
	"strconv"
	"strings"
	"sync"
	"time"
)

type PropertyCfg struct {
	ID          string
	Funcs       []string // extra functions (besides those tagged `prop ID`)
	NotDecided  []string
	Bounded     []string
	Assumptions []string
	Special     func(p *Program, run *CheckRun) // extra analyses (region checker, sweeps)
	Sweep       *SweepCfg                       // decided on the package-wide sweep
}

type CheckRun struct {
	ID        string
	Tier      string
	Seed      int
	Start     time.Time
	Results   []*FuncResult
	Obls      []*Obligation
	Lines     []string
	Viol      int
	Known     int
	Broken    []string
	Extra     map[string]interface{}
	ExtraObls []map[string]interface{}
}

type knownFinding struct {
	Prop, Obligation, Rest string
}

func loadKnownFindings() []knownFinding {
	b, err := os.ReadFile(filepath.Join(verifDir, "known_findings.txt"))
	if err != nil {
		return nil
	}
	var out []knownFinding
	for _, l := range strings.Split(string(b), "\n") {
		l = strings.TrimSpace(l)
		if !strings.HasPrefix(l, "finding:") {
			continue
		}
		kf := knownFinding{Rest: l}
		for _, f := range strings.Fields(l) {
			if strings.HasPrefix(f, "property=") {
				kf.Prop = strings.TrimPrefix(f, "property=")
			}
			if strings.HasPrefix(f, "obligation=") {
				kf.Obligation = strings.TrimPrefix(f, "obligation=")
			}
		}
		out = append(out, kf)
	}
	return out
}

func propFuncs(p *Program, id string) []string {
	var out []string
	for _, k := range p.sortedFuncKeys() {
		fi := p.Funcs[k]
		if fi.Contract == nil {
			continue
		}
		for _, pr := range fi.Contract.Props {
			if pr == id {
				out = append(out, k)
			}
		}
	}
	return out
}

func propHarnesses(p *Program, id string) []string {
	var out []string
	for k, h := range p.Harnesses {
		for _, pr := range h.Props {
			if pr == id {
				out = append(out, k)
			}
		}
	}
	sort.Strings(out)
	return out
}

// generate obligations + scripts for one function (sequential: shared term tables)
func generateOne(p *Program, key string, workDir string, harness bool) *FuncResult {
	resetEngine()
	var res *FuncResult
	var ex *Exec
	if harness {
		ex = newExec(p, nil)
		res = ex.verifyHarness(p.Harnesses[key])
	} else {
		fi, ok := p.Funcs[key]
		if !ok {
			return &FuncResult{Key: key, Undecided: "no such function"}
		}
		ex = newExec(p, fi)
		ex.safetyOnly = sweepMode
		res = ex.verifyFunc()
	}
	if res.Undecided != "" {
		return res
	}
	dir := filepath.Join(workDir, sanitizeFile(key))
	os.RemoveAll(dir)
	os.MkdirAll(dir, 0o755)
	for _, o := range res.Obls {
		script := o.script(ex.globalFacts)
		o.File = filepath.Join(dir, sanitizeFile(o.Name)+".smt2")
		os.WriteFile(o.File, []byte(script), 0o644)
		o.Size = len(script)
		if !o.Canary {
			if sf := o.scriptFiltered(ex.globalFacts); len(sf) < len(script)*9/10 {
				o.FileF = filepath.Join(dir, sanitizeFile(o.Name)+".f.smt2")
				os.WriteFile(o.FileF, []byte(sf), 0o644)
			}
		}
		// free term references
		o.Facts, o.Goal, o.Axioms = nil, nil, nil
	}
	return res
}

func solveAll(obls []*Obligation, d *Discharger) {
	var wg sync.WaitGroup
	sem := make(chan struct{}, d.Par)
	for _, o := range obls {
		o := o
		wg.Add(1)
		sem <- struct{}{}
		go func() {
			defer wg.Done()
			defer func() { <-sem }()
			d.solveFile(o, o.File)
		}()
	}
	wg.Wait()
}

func cmdCheck(args []string) int {
	if len(args) < 1 {
		fmt.Fprintln(os.Stderr, "usage: govc check <ID> [--tier quick|thorough]")
		return 2
	}
	id := args[0]
	fs := flag.NewFlagSet("check", flag.ExitOnError)
	tier := fs.String("tier", envOr("VERIF_TIER", "quick"), "quick|thorough")
	fs.Parse(args[1:])
	seed, _ := strconv.Atoi(envOr("VERIF_SEED", "1"))
	cfg, ok := propertyTable()[id]
	if !ok {
		fmt.Fprintf(os.Stderr, "property %s is not claimed (see MANIFEST.json not_applicable)\n", id)
		return 2
	}
	run := &CheckRun{ID: id, Tier: *tier, Seed: seed, Start: time.Now(), Extra: map[string]interface{}{}}
	p, err := loadAll(nil)
	if err != nil {
		fmt.Fprintln(os.Stderr, "load error:", err)
		fmt.Printf("VIOLATION property=%s replay=%s no-failing-input-found\n", id, writeReplay(run, "load", map[string]interface{}{"error": err.Error(), "note": "the working tree does not load/type-check with the contracts: every obligation of this property is undischarged"}))
		writeEvidence(run, cfg, p)
		return 1
	}
	workDir := filepath.Join(verifDir, "work", "vc", id)
	timeout := 20
	if *tier == "thorough" {
		timeout = 60
	}
	d := &Discharger{WorkDir: workDir, TimeoutS: timeout, Seed: seed, Par: runtime.NumCPU(), Retry: true}
	fpRes := &FuncResult{Key: "contracts/fp (floating-point library lemmas)"}
	funcs := append(propFuncs(p, id), cfg.Funcs...)
	if cfg.Sweep != nil {
		funcs = nil
		loadSweep(p, run, cfg, timeout)
	}
	for _, k := range funcs {
		res := generateOne(p, k, workDir, false)
		run.Results = append(run.Results, res)
		run.Obls = append(run.Obls, res.Obls...)
	}
	for _, h := range propHarnesses(p, id) {
		if cfg.Sweep != nil {
			break
		}
		res := generateOne(p, h, workDir, true)
		res.Key = "harness:" + h
		run.Results = append(run.Results, res)
		run.Obls = append(run.Obls, res.Obls...)
	}
	// floating-point library lemmas used by the float kernels of these functions
	fpSeen := map[string]bool{}
	for _, r := range run.Results {
		if cfg.Sweep != nil {
			break // the floating-point library lemmas are discharged under C16
		}
		for _, n := range r.Notes {
			const pfx = "float kernel backed by FP lemma contracts/fp/"
			if strings.HasPrefix(n, pfx) {
				name := strings.TrimSuffix(strings.TrimPrefix(n, pfx), ".smt2")
				if !fpSeen[name] {
					fpSeen[name] = true
					o := &Obligation{Name: "fp-lemma[" + name + "]", Kind: "fp-lemma", Func: "contracts/fp", Pos: "contracts/fp/" + name + ".smt2", File: filepath.Join(verifDir, "contracts", "fp", name+".smt2")}
					if st, err := os.Stat(o.File); err == nil {
						o.Size = int(st.Size())
					}
					run.Obls = append(run.Obls, o)
					fpRes.Obls = append(fpRes.Obls, o)
				}
			}
		}
	}
	if len(fpRes.Obls) > 0 {
		run.Results = append(run.Results, fpRes)
	}
	d.Retry = true
	if cfg.Sweep == nil {
		solveAll(run.Obls, d)
	}
	if cfg.Special != nil {
		cfg.Special(p, run)
	}
	known := loadKnownFindings()
	os.MkdirAll(filepath.Join(verifDir, "replays"), 0o755)
	// evaluate
	for _, r := range run.Results {
		if r.Undecided != "" {
			// a claimed function that can no longer be brought under its contract: all of its
			// obligations are undischarged
			name := r.Key + "#undecided"
			if kf := matchKnown(known, id, name); kf != nil {
				fmt.Printf("KNOWN-FINDING: property=%s %s\n", id, kf.Rest)
				run.Known++
				continue
			}
			uinfo := map[string]interface{}{"obligation": name, "reason": r.Undecided,
				"note": "the function left the verified subset or its contract no longer applies; obligations that were discharged on the unchanged tree cannot be generated"}
			ending := " no-failing-input-found"
			if tryReplay(p, run, &Obligation{Name: name, Func: r.Key}, uinfo) {
				ending = ""
			}
			path := writeReplay(run, name, uinfo)
			fmt.Printf("VIOLATION property=%s replay=%s%s\n", id, path, ending)
			run.Viol++
			continue
		}
		retReach, hasRet := false, false
		for _, o := range r.Obls {
			if o.Canary && strings.Contains(o.Name, "#canary[ret") {
				hasRet = true
				if o.Status != "proved" {
					retReach = true
				}
			}
		}
		for _, o := range r.Obls {
			if o.Canary {
				if strings.Contains(o.Name, "#canary[entry]") && o.Status == "proved" {
					run.Broken = append(run.Broken, o.Name+": contradictory preconditions (vacuous contract)")
				}
				continue
			}
			if o.Status == "proved" || o.Auto {
				continue
			}
			if kf := matchKnown(known, id, o.Name); kf != nil {
				fmt.Printf("KNOWN-FINDING: property=%s %s\n", id, kf.Rest)
				run.Known++
				o.Known = true
				continue
			}
			run.Viol++
			ending := ""
			info := map[string]interface{}{"obligation": o.Name, "kind": o.Kind, "position": o.Pos, "status": o.Status, "solver": o.Solver, "solver_output": trunc(o.Output, 4000), "smt_file": o.File}
			replayed := tryReplay(p, run, o, info)
			if !replayed {
				ending = " no-failing-input-found"
			}
			path := writeReplay(run, o.Name, info)
			fmt.Printf("VIOLATION property=%s replay=%s%s\n", id, path, ending)
		}
		if hasRet && !retReach {
			run.Broken = append(run.Broken, r.Key+": no return is reachable under the contract (vacuous)")
		}
	}
	for _, l := range run.Lines {
		fmt.Println(l)
	}
	writeEvidence(run, cfg, p)
	if run.Viol > 0 {
		// a violated obligation can make later code unreachable; that is reported with the violation
		for _, b := range run.Broken {
			fmt.Println("NOTE (consequence of the violations above):", b)
		}
		return 1
	}
	if len(run.Broken) > 0 {
		for _, b := range run.Broken {
			fmt.Println("CHECK-BROKEN:", b)
		}
		return 2
	}
	np := 0
	for _, o := range run.Obls {
		if !o.Canary && o.Status == "proved" {
			np++
		}
	}
	fmt.Printf("OK property=%s tier=%s obligations=%d discharged=%d known=%d wall=%.1fs\n", id, *tier, countReal(run.Obls), np, run.Known, time.Since(run.Start).Seconds())
	return 0
}

func countReal(obls []*Obligation) int {
	n := 0
	for _, o := range obls {
		if !o.Canary {
			n++
		}
	}
	return n
}

func matchKnown(known []knownFinding, id, obl string) *knownFinding {
	for i := range known {
		if known[i].Prop == id && known[i].Obligation == obl {
			return &known[i]
		}
	}
	return nil
}

func envOr(k, d string) string {
	if v := os.Getenv(k); v != "" {
		return v
	}
	return d
}

func writeReplay(run *CheckRun, name string, info map[string]interface{}) string {
	dir := filepath.Join(verifDir, "replays")
	os.MkdirAll(dir, 0o755)
	path := filepath.Join(dir, run.ID+"-"+sanitizeFile(name)+".json")
	info["property"] = run.ID
	b, _ := json.MarshalIndent(info, "", " ")
	os.WriteFile(path, b, 0o644)
	return path
}

// tryReplay: after an obligation failed, a bounded witness search for the property (an in-package
// test under /verif/replay_tests, injected with `go test -overlay`, never written into /repo) is run
// once per check run against the real code; the failing inputs it prints are attached to the
// violations of functions in the call tree of the entry point the input was fed to. The SMT model of
// the obligation itself is not turned into an input (strings and heaps are abstract in the
// encoding), so a violation without such a witness keeps the suffix no-failing-input-found.
type witnessSet struct {
	ran   bool
	lines []string
	trees map[string]map[string]bool
	cmd   string
}

var witnesses = &witnessSet{trees: map[string]map[string]bool{}}

func tryReplay(p *Program, run *CheckRun, o *Obligation, info map[string]interface{}) bool {
	test := filepath.Join(verifDir, "replay_tests", strings.ToLower(run.ID)+"_replay_test.go")
	if _, err := os.Stat(test); err != nil {
		return false
	}
	w := witnesses
	if !w.ran {
		w.ran = true
		ov := filepath.Join(verifDir, "work", "replay-overlay.json")
		os.MkdirAll(filepath.Dir(ov), 0o755)
		os.WriteFile(ov, []byte(fmt.Sprintf(`{"Replace":{"%s/zz_vp_replay_test.go":"%s"}}`, repoDir, test)), 0o644)
		name := "TestVPReplay" + run.ID
		cmd := exec.Command("go", "test", "-overlay", ov, "-vet=off", "-count=1", "-timeout", "600s", "-run", "^"+name+"$", ".")
		cmd.Dir = repoDir
		cmd.Env = append(os.Environ(), "GOFLAGS=-mod=mod", "GOPROXY=off", "GOSUMDB=off", "GOTOOLCHAIN=local")
		out, _ := cmd.CombinedOutput()
		w.cmd = "cd /repo && go test -overlay <{Replace: zz_vp_replay_test.go -> " + test + "}> -vet=off -count=1 -run ^" + name + "$ ."
		for _, l := range strings.Split(string(out), "\n") {
			if strings.HasPrefix(l, "WITNESS: ") {
				w.lines = append(w.lines, strings.TrimPrefix(l, "WITNESS: "))
			}
		}
		os.Remove(ov)
		run.Extra["witness_search"] = map[string]interface{}{"test": test, "command": w.cmd, "failing_inputs_found": len(w.lines)}
	}
	if len(w.lines) == 0 || p == nil {
		return false
	}
	var mine []string
	for _, l := range w.lines {
		entry := strings.Fields(l)[0]
		if strings.HasPrefix(entry, "WriteTo") {
			entry = "Subtitles." + entry
		}
		if entry == "OpenFile" {
			entry = "Open"
		}
		tree, ok := w.trees[entry]
		if !ok {
			tree = map[string]bool{}
			for _, k := range callTree(p, []string{entry}) {
				tree[k] = true
			}
			if entry == "Open" {
				tree["OpenFile"] = true
			}
			w.trees[entry] = tree
		}
		if tree[o.Func] {
			mine = append(mine, l)
		}
	}
	if len(mine) == 0 {
		return false
	}
	info["failing_inputs"] = mine
	info["replay_command"] = w.cmd
	info["replay_note"] = "found by the bounded witness search of this property on the real code; the inputs were fed to an entry point whose call tree contains the function of the failed obligation"
	return true
}

func writeEvidence(run *CheckRun, cfg PropertyCfg, p *Program) {
	os.MkdirAll(filepath.Join(verifDir, "evidence"), 0o755)
	nObl, nDis := 0, 0
	backends := map[string]int{}
	solverS := 0.0
	var samples []map[string]interface{}
	var funcs, undec []string
	notes := map[string]bool{}
	externs := map[string]bool{}
	for _, r := range run.Results {
		if r.Undecided != "" {
			undec = append(undec, r.Key+": "+r.Undecided)
			continue
		}
		funcs = append(funcs, r.Key)
		for _, n := range r.Notes {
			notes[n] = true
		}
		for _, e := range r.Externs {
			externs[e] = true
		}
	}
	for _, o := range run.Obls {
		if o.Canary {
			continue
		}
		nObl++
		if o.Status == "proved" {
			nDis++
			backends[o.Solver]++
		}
		solverS += o.Time
	}
	// samples: a spread of obligations of different kinds
	seenKind := map[string]int{}
	for _, o := range run.Obls {
		if o.Canary || seenKind[o.Kind] >= 2 {
			continue
		}
		seenKind[o.Kind]++
		samples = append(samples, map[string]interface{}{"obligation": o.Name, "kind": o.Kind, "position": o.Pos, "status": o.Status, "solver": o.Solver, "solver_s": round3(o.Time), "smt_bytes": o.Size})
	}
	for _, e := range run.ExtraObls {
		nObl++
		if e["status"] == "proved" {
			nDis++
		}
		if len(samples) < 40 {
			samples = append(samples, e)
		}
	}
	var assumptions []string
	assumptions = append(assumptions, "trusted: the VC generator govc (contract parser, symbolic executor, SMT encoding), go/types, and the SMT solvers z3 4.8.12 / z3 5.1.0 / cvc5 1.0")
	assumptions = append(assumptions, "memory model: per-field heap arrays, faithful slices (array id, offset, len, cap), allocation counter; machine integers are mathematical integers with type-range facts (no 64-bit wrap-around; excluded by `bounded` preconditions)")
	for _, a := range cfg.Assumptions {
		assumptions = append(assumptions, a)
	}
	var ns []string
	nAuto := 0
	for n := range notes {
		if strings.HasPrefix(n, "auto frame invariant proved inductive") {
			nAuto++ // proved, not assumed: reported as a count
			continue
		}
		ns = append(ns, "abstraction: "+n)
	}
	if nAuto > 0 {
		ns = append(ns, fmt.Sprintf("abstraction: %d automatic loop invariants (Houdini candidates: frames, non-nil, bounds, freshness) were proved inductive during generation and used; none is assumed", nAuto))
	}
	sort.Strings(ns)
	assumptions = append(assumptions, ns...)
	var es []string
	for e := range externs {
		es = append(es, "assumed extern contract: "+e)
	}
	sort.Strings(es)
	assumptions = append(assumptions, es...)
	for _, nd := range cfg.NotDecided {
		assumptions = append(assumptions, "not decided: "+nd)
	}
	cov := map[string]interface{}{
		"obligations":              nObl,
		"discharged":               nDis,
		"checker_cmd":              fmt.Sprintf("/verif/check %s --tier %s", run.ID, run.Tier),
		"trusted_base":             []string{"govc (this repository's VC generator)", "go/types + x/tools/go/packages v0.29.0", "z3 4.8.12", "z3 5.1.0", "cvc5 1.0", "extern contracts in /verif/contracts/*.gvc"},
		"functions_under_contract": funcs,
		"undecided_functions":      undec,
		"backends":                 backends,
		"solver_s":                 round3(solverS),
		"samples":                  samples,
		"not_decided_clauses":      cfg.NotDecided,
		"bounded_standins":         cfg.Bounded,
		"known_findings_reported":  run.Known,
		"rule":                     "one obligation per requires-at-call, ensures-at-return, loop-invariant entry/step, decreases, lemma, frame and panic site of the functions under contract, generated from /repo's working tree",
	}
	for k, v := range run.Extra {
		cov[k] = v
	}
	ev := map[string]interface{}{
		"property_id": run.ID,
		"tier":        run.Tier,
		"seed":        run.Seed,
		"level":       "proof",
		"coverage":    cov,
		"assumptions": assumptions,
		"wall_s":      round3(time.Since(run.Start).Seconds()),
		"violations":  run.Viol,
	}
	b, _ := json.MarshalIndent(ev, "", " ")
	os.WriteFile(filepath.Join(verifDir, "evidence", run.ID+".json"), b, 0o644)
}

func round3(f float64) float64 { return float64(int(f*1000+0.5)) / 1000 }
