#!/bin/bash
# usage: mut.sh <file> <sed-expr> <funcs...>  -- run govc on a mutated scratch copy
f=$1; shift; e=$1; shift
rsync -a --delete --exclude .git /repo/ /tmp/mut/
cd /tmp/mut && sed -i "$e" $f && (diff <(cd /repo && cat $f) $f | head -6)
(go build ./... 2>&1 | head -3)
GOVC_REPO=/tmp/mut GOVC_VERIF=/tmp/mutv /verif/bin/govc verify -t 5 "$@" 2>&1 | tail -6
