package astisub

import "testing"

// Witness for obligation harness:stlBytesIdempotent#lemma[idempotent] (C16):
// at 30 fps reading a timecode and writing it again must not change it.
func TestVerifC16STLTimecodeIdempotent(t *testing.T) {
	for _, fr := range []int{25, 30} {
		for f := 0; f < fr; f++ {
			b := []byte{1, 2, 3, byte(f)}
			o := formatDurationSTLBytes(parseDurationSTLBytes(b, fr), fr)
			if o[0] != b[0] || o[1] != b[1] || o[2] != b[2] || o[3] != b[3] {
				t.Errorf("%d fps: timecode %v is written back as %v", fr, b, o)
			}
		}
	}
}
