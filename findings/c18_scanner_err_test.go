package astisub

// Witnesses for C18: the scanner-based readers (SRT, WebVTT, SSA) never looked at scanner.Err():
// a read failure in the middle of the document, or a line longer than the scanner's buffer,
// ended the scan loop silently and a shorter cue list was returned with a nil error.

import (
	"errors"
	"io"
	"strings"
	"testing"
)

type c18FailingReader struct {
	data []byte
	pos  int
}

var errC18 = errors.New("injected read failure")

func (r *c18FailingReader) Read(p []byte) (int, error) {
	if r.pos >= len(r.data) {
		return 0, errC18
	}
	n := copy(p, r.data[r.pos:])
	r.pos += n
	return n, nil
}

const c18SRT = "1\n00:00:01,000 --> 00:00:02,000\nfirst\n\n2\n00:00:03,000 --> 00:00:04,000\nsecond\n\n"
const c18VTT = "WEBVTT\n\n1\n00:00:01.000 --> 00:00:02.000\nfirst\n\n2\n00:00:03.000 --> 00:00:04.000\nsecond\n\n"
const c18SSA = "[Script Info]\nScriptType: v4.00+\n\n[V4+ Styles]\nFormat: Name, Fontname\nStyle: Default,Arial\n\n[Events]\nFormat: Layer, Start, End, Style, Text\nDialogue: 0,0:00:01.00,0:00:02.00,Default,first\nDialogue: 0,0:00:03.00,0:00:04.00,Default,second\n"

func TestC18ScannerReadFailure(t *testing.T) {
	type rd func(io.Reader) (*Subtitles, error)
	for name, c := range map[string]struct {
		doc string
		f   rd
	}{
		"srt": {c18SRT, func(r io.Reader) (*Subtitles, error) { return ReadFromSRT(r) }},
		"vtt": {c18VTT, func(r io.Reader) (*Subtitles, error) { return ReadFromWebVTT(r) }},
		"ssa": {c18SSA, func(r io.Reader) (*Subtitles, error) { return ReadFromSSA(r) }},
	} {
		for k := 0; k <= len(c.doc); k++ {
			s, err := c.f(&c18FailingReader{data: []byte(c.doc[:k])})
			if err == nil {
				n := -1
				if s != nil {
					n = len(s.Items)
				}
				t.Fatalf("%s: stream failed after %d bytes, reader returned nil error and %d cues", name, k, n)
			}
		}
	}
}

func TestC18ScannerLineTooLong(t *testing.T) {
	long := strings.Repeat("x", 1<<17)
	if _, err := ReadFromSRT(strings.NewReader("1\n00:00:01,000 --> 00:00:02,000\n" + long + "\n\n2\n00:00:03,000 --> 00:00:04,000\nsecond\n")); err == nil {
		t.Fatal("srt: line longer than the scanner buffer, nil error")
	}
	if _, err := ReadFromWebVTT(strings.NewReader("WEBVTT\n\n00:00:01.000 --> 00:00:02.000\n" + long + "\n\n00:00:03.000 --> 00:00:04.000\nsecond\n")); err == nil {
		t.Fatal("vtt: line longer than the scanner buffer, nil error")
	}
	if _, err := ReadFromSSA(strings.NewReader(c18SSA + "Dialogue: 0,0:00:05.00,0:00:06.00,Default," + long + "\n")); err == nil {
		t.Fatal("ssa: line longer than the scanner buffer, nil error")
	}
}
