package astisub

import (
	"io"
	"strings"
	"testing"
	"testing/iotest"
)

// Witness for obligation harness:splitStable#lemma[advance] (C17): a CR LF pair split
// across two reads must still be one line break.
func TestVerifC17CRLFAcrossReads(t *testing.T) {
	doc := "1\r\n00:00:01,000 --> 00:00:02,000\r\nhello\r\n\r\n2\r\n00:00:03,000 --> 00:00:04,000\r\nworld\r\n"
	lines := func(r io.Reader) (out []string) {
		sc := newScanner(r)
		for sc.Scan() {
			out = append(out, sc.Text())
		}
		return
	}
	whole := lines(strings.NewReader(doc))
	bytewise := lines(iotest.OneByteReader(strings.NewReader(doc)))
	if len(whole) != len(bytewise) {
		t.Fatalf("one read: %d lines, one byte at a time: %d lines", len(whole), len(bytewise))
	}
	a, err1 := ReadFromSRT(strings.NewReader(doc))
	b, err2 := ReadFromSRT(iotest.OneByteReader(strings.NewReader(doc)))
	if err1 != nil || err2 != nil || len(a.Items) != len(b.Items) {
		t.Fatalf("parse results differ: %v/%v", err1, err2)
	}
	for k := range a.Items {
		if a.Items[k].String() != b.Items[k].String() {
			t.Errorf("cue %d: %q vs %q", k, a.Items[k].String(), b.Items[k].String())
		}
	}
}
