package astisub

// Witnesses for C08 on the teletext reader (run with /verif/replay.sh).
// Each test panicked on the tree before the "fix: teletext ..." commit.

import (
	"bytes"
	"testing"
	"time"

	"github.com/asticode/go-astits"
)

// Two transport packets that each start a unit on a PID that is neither PSI nor PES: at end of
// stream the demultiplexer returns (nil, nil) from NextData.
func TestC08TeletextDemuxerYieldsNothing(t *testing.T) {
	p := make([]byte, 188)
	p[0] = 0x47
	p[1] = 0x41 // payload_unit_start, PID 0x100
	p[2] = 0x00
	p[3] = 0x10 // payload only
	for i := 4; i < 188; i++ {
		p[i] = 0xaa
	}
	p = append(p, p...)
	_, _ = ReadFromTeletext(bytes.NewReader(p), TeletextOptions{PID: 0x100, Page: 888})
	_, _ = ReadFromTeletext(bytes.NewReader(p), TeletextOptions{Page: 888})
}

func TestC08TeletextEmptyPESPayload(t *testing.T) {
	b := newTeletextPageBuffer(888, newTeletextCharacterDecoder())
	b.process(&astits.PESData{Data: []byte{}}, time.Time{})
	// data identifier, then a data unit id without its length byte
	b.process(&astits.PESData{Data: []byte{0x10, 0x03}}, time.Time{})
}

func TestC08TeletextShortDataUnit(t *testing.T) {
	for n := 0; n < 44; n++ {
		b := newTeletextPageBuffer(888, newTeletextCharacterDecoder())
		d := make([]byte, n)
		if n > 1 {
			d[1] = 0xe4
		}
		for k := 2; k < n; k++ {
			d[k] = 0x15 // hamming 8/4 of 0: magazine 8, packet 0
		}
		b.parseDataUnit(d, teletextPESDataUnitIDEBUSubtitleData, time.Time{})
	}
}

func TestC08TeletextFirstTriplet(t *testing.T) {
	cd := newTeletextCharacterDecoder()
	cd.setTripletX28(0)
	cd = newTeletextCharacterDecoder()
	cd.setTripletM29(0)
	// M/29 packet before any page header: designation code 0, packet 29, magazine 8
	b := newTeletextPageBuffer(888, newTeletextCharacterDecoder())
	i := make([]byte, 40)
	i[0] = 0x15
	b.parsePacket(i, 8, 29, time.Time{})
}
