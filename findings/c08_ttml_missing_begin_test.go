package astisub

// Witness for C08: a TTML <p> without begin (or end) made ReadFromTTML dereference a nil
// *TTMLInDuration (panic before the "fix: ttml ..." commit).

import (
	"strings"
	"testing"
)

func TestC08TTMLMissingBegin(t *testing.T) {
	for _, doc := range []string{
		`<tt xmlns="http://www.w3.org/ns/ttml"><body><div><p end="00:00:02.000">a</p></div></body></tt>`,
		`<tt xmlns="http://www.w3.org/ns/ttml"><body><div><p begin="00:00:01.000">a</p></div></body></tt>`,
		`<tt xmlns="http://www.w3.org/ns/ttml"><body><div><p>a</p></div></body></tt>`,
	} {
		s, err := ReadFromTTML(strings.NewReader(doc))
		if err == nil && (s == nil || len(s.Items) != 1) {
			t.Fatalf("unexpected result %v", s)
		}
	}
}
