package astisub

import (
	"strings"
	"testing"
)

// Witnesses for obligations ReadFromSRT#index[s2[0]] and ReadFromWebVTT#index[right[0]] (C08):
// a time-boundaries line without an end time must yield an error, not a panic.
func TestVerifC08MissingEndTime(t *testing.T) {
	for name, f := range map[string]func() error{
		"srt": func() error { _, err := ReadFromSRT(strings.NewReader("1\n00:00:01,000 -->\nx\n")); return err },
		"vtt": func() error {
			_, err := ReadFromWebVTT(strings.NewReader("WEBVTT\n\n00:00:01.000 -->\nx\n"))
			return err
		},
	} {
		func() {
			defer func() {
				if r := recover(); r != nil {
					t.Errorf("%s: panic: %v", name, r)
				}
			}()
			if err := f(); err == nil {
				t.Errorf("%s: no error for a missing end time", name)
			}
		}()
	}
}
