package astisub

// Witnesses for C19: two writers iterated s.Styles directly, so repeated writes of one cue list
// gave different bytes (Go randomises map iteration order per range statement).

import (
	"bytes"
	"testing"
)

func c19List() *Subtitles {
	s := NewSubtitles()
	b := true
	for _, id := range []string{"a", "b", "c", "d", "e", "f"} {
		s.Styles[id] = &Style{ID: id, InlineStyle: &StyleAttributes{WebVTTStyles: []string{"::cue(." + id + ") { color: red }"}}}
	}
	// heterogeneous SSA attribute sets: the Format line lists attributes in order of first appearance
	s.Styles["a"].InlineStyle.SSABold = &b
	s.Styles["b"].InlineStyle.SSAItalic = &b
	s.Styles["c"].InlineStyle.SSAUnderline = &b
	s.Styles["d"].InlineStyle.SSAStrikeout = &b
	s.Styles["e"].InlineStyle.SSAFontName = "Arial"
	f := 12.0
	s.Styles["f"].InlineStyle.SSAFontSize = &f
	s.Items = append(s.Items, &Item{StartAt: 1e9, EndAt: 2e9, Lines: []Line{{Items: []LineItem{{Text: "x"}}}}})
	return s
}

func TestC19WebVTTStyleBlocksDeterministic(t *testing.T) {
	s := c19List()
	var first []byte
	for i := 0; i < 50; i++ {
		var w bytes.Buffer
		if err := s.WriteToWebVTT(&w); err != nil {
			t.Fatal(err)
		}
		if first == nil {
			first = w.Bytes()
		} else if !bytes.Equal(first, w.Bytes()) {
			t.Fatalf("write %d differs from the first write:\n%s\n--- vs ---\n%s", i, first, w.Bytes())
		}
	}
}

func TestC19SSAFormatDeterministic(t *testing.T) {
	s := c19List()
	var first []byte
	for i := 0; i < 50; i++ {
		var w bytes.Buffer
		if err := s.WriteToSSA(&w); err != nil {
			t.Fatal(err)
		}
		if first == nil {
			first = w.Bytes()
		} else if !bytes.Equal(first, w.Bytes()) {
			t.Fatalf("write %d differs from the first write", i)
		}
	}
}
