package astisub

import (
	"bytes"
	"testing"
)

// Witnesses for obligations Subtitles.WriteToSSA#nil-deref[s.Metadata.SSAScriptType] and
// newSSAStyleFromStyle#nil-deref[i.InlineStyle.SSAAlignment] (C08): metadata and a style's inline
// attributes are optional parts of a cue list.
func TestVerifC08SSAWriterOptionalParts(t *testing.T) {
	for name, build := range map[string]func() *Subtitles{
		"nil metadata": func() *Subtitles {
			s := NewSubtitles()
			s.Items = append(s.Items, &Item{EndAt: 1000000000, Lines: []Line{{Items: []LineItem{{Text: "x"}}}}})
			return s
		},
		"style without inline attributes": func() *Subtitles {
			s := NewSubtitles()
			s.Metadata = &Metadata{}
			s.Styles["a"] = &Style{ID: "a"}
			s.Items = append(s.Items, &Item{EndAt: 1000000000, Style: s.Styles["a"], Lines: []Line{{Items: []LineItem{{Text: "x"}}}}})
			return s
		},
	} {
		func() {
			defer func() {
				if r := recover(); r != nil {
					t.Errorf("%s: panic: %v", name, r)
				}
			}()
			if err := build().WriteToSSA(&bytes.Buffer{}); err != nil {
				t.Errorf("%s: %v", name, err)
			}
		}()
	}
}
