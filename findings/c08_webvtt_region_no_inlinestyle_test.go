package astisub

import (
	"bytes"
	"testing"
)

// Witness for obligation Subtitles.WriteToWebVTT#nil-deref[s.Regions[id].InlineStyle.WebVTTLines] (C08):
// a region without inline attributes must be writable.
func TestVerifC08WebVTTRegionWithoutInlineStyle(t *testing.T) {
	s := NewSubtitles()
	s.Regions["r"] = &Region{ID: "r"}
	s.Items = append(s.Items, &Item{EndAt: 1000000000, Region: s.Regions["r"], Lines: []Line{{Items: []LineItem{{Text: "x"}}}}})
	defer func() {
		if r := recover(); r != nil {
			t.Fatalf("panic: %v", r)
		}
	}()
	if err := s.WriteToWebVTT(&bytes.Buffer{}); err != nil {
		t.Fatal(err)
	}
}
