package astisub

import "testing"

// Witness for obligation Subtitles.removeUnusedRegionsAndStyles#post@return[ret1:closure] (C13):
// a style reachable from a cue only through inheritance must survive Optimize.
func TestVerifC13OptimizeKeepsInheritedStyles(t *testing.T) {
	s := NewSubtitles()
	grand := &Style{ID: "grand"}
	parent := &Style{ID: "parent", Style: grand}
	child := &Style{ID: "child", Style: parent}
	unused := &Style{ID: "unused"}
	for _, st := range []*Style{grand, parent, child, unused} {
		s.Styles[st.ID] = st
	}
	s.Items = append(s.Items, &Item{Style: child})
	s.Optimize()
	for _, id := range []string{"child", "parent", "grand"} {
		if _, ok := s.Styles[id]; !ok {
			t.Errorf("style %q is reachable through inheritance but was deleted", id)
		}
	}
	if _, ok := s.Styles["unused"]; ok {
		t.Errorf("unused style kept")
	}
}
