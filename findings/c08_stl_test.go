package astisub

import (
	"bytes"
	"testing"
)

func verifSTLDoc(dfc string, tcp string) []byte {
	g := bytes.Repeat([]byte{' '}, 1024)
	copy(g[0:3], "850")
	copy(g[3:11], dfc)
	g[11] = '0'
	copy(g[12:14], "00")
	copy(g[256:264], tcp)
	tti := make([]byte, 128)
	tti[3] = 0xff
	for k := 16; k < 128; k++ {
		tti[k] = 0x8f
	}
	tti[16] = 'x'
	return append(g, tti...)
}

// Witnesses for obligations parseTTIBlock#pre@call[parseDurationSTLBytes:req1] (framerate > 0),
// parseDurationSTL#slice-bounds[i[0:2]] and encodeTextSTL#slice-bounds[o[:len(o)-1]] (C08).
func TestVerifC08STL(t *testing.T) {
	run := func(name string, f func() error, wantErr bool) {
		defer func() {
			if r := recover(); r != nil {
				t.Errorf("%s: panic: %v", name, r)
			}
		}()
		err := f()
		if wantErr && err == nil {
			t.Errorf("%s: no error", name)
		}
		if !wantErr && err != nil {
			t.Errorf("%s: %v", name, err)
		}
	}
	run("unknown disk format code", func() error {
		_, err := ReadFromSTL(bytes.NewReader(verifSTLDoc("STLXX.01", "        ")), STLOptions{})
		return err
	}, true)
	run("short timecode field", func() error {
		_, err := ReadFromSTL(bytes.NewReader(verifSTLDoc("STL25.01", "1       ")), STLOptions{})
		return err
	}, true)
	run("leading combining mark", func() error {
		s := NewSubtitles()
		s.Items = append(s.Items, &Item{EndAt: 1000000000, Lines: []Line{{Items: []LineItem{{Text: "́a"}}}}})
		return s.WriteToSTL(&bytes.Buffer{})
	}, false)
}
