package astisub

import (
	"bytes"
	"io"
	"os"
	"testing"
	"testing/iotest"
)

// Witness for obligations readNBytes#post@return[...:complete] and [...:clean-eof] (C17):
// an STL file delivered in short reads, or with its last bytes together with io.EOF,
// must parse exactly as when it is delivered in one read.
func TestVerifC17STLShortReads(t *testing.T) {
	doc, err := os.ReadFile("testdata/example-in.stl")
	if err != nil {
		t.Skip(err)
	}
	want, err := ReadFromSTL(bytes.NewReader(doc), STLOptions{})
	if err != nil {
		t.Fatal(err)
	}
	for name, r := range map[string]io.Reader{
		"one byte at a time": iotest.OneByteReader(bytes.NewReader(doc)),
		"half reads":         iotest.HalfReader(bytes.NewReader(doc)),
		"data with EOF":      iotest.DataErrReader(bytes.NewReader(doc)),
	} {
		got, err := ReadFromSTL(r, STLOptions{})
		if err != nil {
			t.Errorf("%s: %v", name, err)
			continue
		}
		if len(got.Items) != len(want.Items) {
			t.Errorf("%s: %d cues, want %d", name, len(got.Items), len(want.Items))
		}
	}
}
