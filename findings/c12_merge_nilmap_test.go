package astisub

import "testing"

// Witness for obligation Subtitles.Merge#nil-map-write[s.Regions[region.ID]] (C12):
// a receiver built without NewSubtitles has nil maps; merging a list that
// defines a region or a style must not panic and must yield the union.
func TestVerifC12MergeNilMaps(t *testing.T) {
	a := &Subtitles{}
	b := NewSubtitles()
	b.Regions["r"] = &Region{ID: "r"}
	b.Styles["s"] = &Style{ID: "s"}
	b.Items = append(b.Items, &Item{})
	a.Merge(b)
	if a.Regions["r"] != b.Regions["r"] || a.Styles["s"] != b.Styles["s"] || len(a.Items) != 1 {
		t.Fatalf("union not built: %+v", a)
	}
}
