package astisub

import (
	"testing"
	"time"
)

// Witness for obligation Subtitles.Fragment#post@return[...:no-multiple-inside] (C10):
// the cue that starts last is not the one that ends last.
func TestVerifC10FragmentCutsEveryCue(t *testing.T) {
	s := NewSubtitles()
	s.Items = []*Item{
		{StartAt: 0, EndAt: 10 * time.Second},
		{StartAt: 1 * time.Second, EndAt: 2 * time.Second},
	}
	f := 3 * time.Second
	s.Fragment(f)
	for _, it := range s.Items {
		next := (it.StartAt/f + 1) * f
		if it.EndAt > next {
			t.Errorf("cue [%v,%v) strictly contains the multiple %v of %v", it.StartAt, it.EndAt, next, f)
		}
	}
}
